"""C36 -- attribute history reports exactly the net change since load.

Random mutation sequences (<= 8 ops) on a parent ``p`` (scalars ``name``/``n``, collection
``children`` as list / set / dict) and a pool of children (many-to-one ``parent``, scalar
``v``), for subjects that are new, loaded, expired (after commit) or partially loaded
(``load_only``), with ``active_history`` off and on.  The session runs with
``autoflush=False`` so nothing but the explicit final flush writes.

Reference model (plain Python, no library code): per attribute the *committed* value as
far as the application could know it when the attribute was first touched (value in
``__dict__``; or the database value when ``active_history`` makes the library load it;
else UNKNOWN) and the *current* value; the parent/child relation is kept once and both
sides (``children`` / ``parent``) are derived from it.

After **every** operation ``inspect(obj).attrs.<a>.history`` (passive: never loads) of
every judged attribute of every pool object must be the difference committed -> current:

* scalar: untouched -> ``((), [v], ())`` when loaded, blank when not; touched ->
  ``([cur], (), [old])`` / ``((), [cur], ())`` when set back to the old value;
  **``deleted=()`` is accepted when the old value was never loaded** (expired / deferred /
  new object, ``active_history`` off - the library documents that it does not load it);
  old ``None`` may be reported as ``[None]`` or ``()``; after ``del`` added may be ``()``
  or ``[None]``;
* many-to-one: same, compared by identity; when the old target was not loaded,
  ``deleted`` may be ``()`` or the real old target (the library may find it in the
  identity map without SQL);
* collections: added = current - committed, unchanged = both, deleted = committed -
  current, compared as multisets of object identities; for a collection that is still
  unloaded (touched only through the back-reference) only the queued adds / removes are
  required, ``unchanged`` is not judged.

Input classes enumerated besides the random sequences: every mutator of the instrumented
list / set / dict classes (pop, popitem, clear, del, item / slice assignment, update,
discard, the in-place operators ...) - often as the *first* mutation since load; the
many-to-one product {loaded, unloaded, expired} x {FK column attribute written directly or
not} x {target in the identity map or not} x {del, set, None}.

Two more enumerated input classes with their own small oracles: (a) a back-reference mutation
queued against an UNLOADED collection, then rollback / expire_all / expire of the objects
before any flush, then load: collection == database, no added / deleted history, parent not
dirty, flush emits no DML; (b) a one-way one-to-many WITHOUT back-reference (rig mapping
``zoo_pc_nobackref``): members moved between two loaded collections, append-then-remove and
remove-then-append, five remove flavours, single move and symmetric swap, plain and
delete-orphan cascade: in-memory collections, histories, flushed ``p_id`` rows and the reload
must all agree.

Final flush: must not raise; afterwards no attribute reports added / deleted; the rows
equal the current values (read through the raw DBAPI handle that owns the transaction);
each UPDATE of ``p`` / ``c`` sets exactly the columns with a net change (a value set back
to its known original is not written; an attribute whose old value was unknown is
written).

Guards: a flush that raises KeyError after ``del obj.<column attribute>`` on a persistent
object is reported as ``flush-keyerror-after-del-of-column-attribute`` (this was a genuine
defect of the tree, found by this check and fixed in the repository by 9f7dc4b; documented
behaviour: del works like setting None) and ends the case.  Objects that become pending only through cascade are
inserted (documented save-update cascade) - the row check uses session membership.
"""
from __future__ import annotations

import re
import warnings

META = {
    "id": "C36",
    "level": "exploration",
    "technique": "plain-data reference model of (committed, current) per attribute compared with AttributeState.history after every mutation; flush result vs model through a raw connection and the DBAPI spy",
    "level_text": "Seeded random sequences of up to 8 scalar / many-to-one / collection mutations (set, set-same, set-back-to-original, None, del, append, remove, replace, clear, re-parent through either side) on new, loaded, expired and partially loaded objects, three collection classes, active_history off/on; all judged attributes of all pool objects are compared with the model after every operation and after the flush.",
    "level_note": "SQLite only. History order inside added/deleted is not asserted (not documented). Collections touched while unloaded are judged only on the queued changes. Mutable / composite / synonym attributes are other properties' subject. Primary-key attributes are not mutated.",
    "design_ref": "DESIGN.md section 4, C36",
    "rule": "case = (subject kind, collection class, active_history, op sequence); non-trivial = at least 2 attributes had a net change at flush time or an attribute was set back to its original; distinct by the descriptor",
    "shards": {"quick": 8, "thorough": 16},
    "modes": ["cext"],
    "soft_s": {"quick": 50, "thorough": 800},
    "exhaustive": {"quick": False, "thorough": False},
    "require": ["history_checks", "scalar_changed_checks", "set_back_checks", "unknown_old_checks", "m2o_checks",
                "collection_changed_checks", "pending_collection_checks", "flushes", "post_flush_history_checks",
                "row_checks", "update_column_checks", "mutator_ops", "mutator_as_first_mutation", "fk_written_directly",
                "del_parent_unloaded_checks", "m2o_product_cases", "queued_then_expired_cases", "moves_without_backref"],
    "assumptions": ["the reference model (about 150 lines) encodes the History documentation correctly"],
}

UNKNOWN = ("unknown",)
ABSENT = ("absent",)      # new object: there never was a value
DEL = ("del",)
UNTOUCHED = ("untouched",)


class Att:
    __slots__ = ("committed", "current", "alt_deleted")

    def __init__(self):
        self.committed = None
        self.current = UNTOUCHED
        self.alt_deleted = None    # many-to-one: the real old target when committed is UNKNOWN


class Model:
    """(committed, current) per attribute; relation parent_of kept once."""

    def __init__(self, ctx, rig, s, desc, active_history):
        from sqlalchemy import inspect

        self.ctx, self.rig, self.s, self.desc = ctx, rig, s, desc
        self.inspect = inspect
        self.ah = active_history
        self.objs = {}        # name -> object (strong)
        self.kind = {}        # name -> "p" | "c"
        self.att = {}         # (name, attr) -> Att
        self.db = {}          # (name, attr) -> database value (scalars), name of parent for ("c?", "parent")
        self.rel = {}         # child name -> parent name | None   (current relation)
        self.coll = {}        # parent name -> dict(mode="known"|"pending"|"untouched", committed=set, padd=set, prem=set)
        self.new = set()      # names of objects created in this case (no row yet)
        self.violated = False
        self.fresh = 0
        self.setbacks = 0
        # parents whose collection can no longer be modelled: a child left through its own
        # ``parent`` attribute while that attribute was unloaded, so the library could not
        # tell the old parent's collection (documented staleness).  Such a collection is
        # neither judged nor operated on directly afterwards.
        self.frozen = set()
        self.phantom = {}     # parent name -> primary key of a parent row that is never loaded by the harness
        self.fk_dirty = set() # children whose FK column attribute was written directly

    def uniq(self, t):
        self.fresh += 1
        return f"{t}{self.fresh}"

    def register(self, name, obj, kind, db=None, parent=None, new=False):
        self.objs[name] = obj
        self.kind[name] = kind
        for a in (("name", "n") if kind == "p" else ("v", "parent")):
            self.att[(name, a)] = Att()
        if kind == "p":
            self.coll[name] = {"mode": "untouched", "committed": set(), "padd": set(), "prem": set(), "maybe": set()}
        if new:
            self.new.add(name)
        if db:
            for k, v in db.items():
                self.db[(name, k)] = v
        if kind == "c":
            self.rel[name] = parent
            self.db[(name, "parent")] = None if new else parent

    def viol(self, mech, summary, **kw):
        self.violated = True
        w = dict(self.desc)
        w["ops"] = list(self.desc["ops"])
        w.update(kw)
        self.ctx.violation(mech, summary, w)

    def pobj(self, name):
        """Parent object by model name; a phantom parent only if the library loaded it."""
        if name is None:
            return None
        if name in self.objs:
            return self.objs[name]
        from sqlalchemy.orm.util import identity_key

        return self.s.identity_map.get(identity_key(self.rig.cls["P"], self.phantom[name]))

    def nm(self, o):
        if o is None:
            return None
        for k, v in self.objs.items():
            if v is o:
                return k
        for k in self.phantom:
            if self.pobj(k) is o:
                return k
        return "?" + type(o).__name__

    # ---- first touch ------------------------------------------------------
    def touch_scalar(self, name, attr, was_loaded, loaded_value):
        a = self.att[(name, attr)]
        if a.current is not UNTOUCHED:
            return a
        if was_loaded:
            a.committed = ("v", loaded_value)
        elif name in self.new:
            a.committed = ABSENT
        elif self.ah and attr == "name":
            a.committed = ("v", self.db[(name, attr)])
        else:
            a.committed = UNKNOWN
        return a

    def touch_parent(self, cname, was_loaded, loaded_value, direct):
        a = self.att[(cname, "parent")]
        if a.current is not UNTOUCHED:
            return a
        if was_loaded:
            a.committed = ("v", loaded_value)
        elif cname in self.new:
            a.committed = ABSENT
        elif self.ah and direct and self.db[(cname, "parent")] not in self.phantom and cname not in self.fk_dirty:
            dbp = self.db[(cname, "parent")]
            a.committed = ("v", self.objs[dbp] if dbp else None)
        else:
            a.committed = UNKNOWN
            a.alt_deleted = self.db[(cname, "parent")]     # a *name*, resolved when compared
        return a

    def touch_coll(self, pname, was_loaded, loaded_members, direct):
        c = self.coll[pname]
        if c["mode"] != "untouched":
            return c
        if was_loaded:
            c["mode"], c["committed"] = "known", set(loaded_members)
        elif pname in self.new:
            c["mode"], c["committed"] = "known", set()
        elif direct:
            # a direct collection operation loads the collection first
            c["mode"] = "known"
            c["committed"] = {n for n, p in self.dbrel().items() if p == pname}
        else:
            c["mode"] = "pending"
        return c

    def dbrel(self):
        return {n: self.db[(n, "parent")] for n in self.kind if self.kind[n] == "c" and n not in self.new}

    def members(self, pname):
        return {n for n, p in self.rel.items() if p == pname}

    # ---- expected histories --------------------------------------------------
    def expect_scalar(self, name, attr):
        """Returns a predicate description: (added_options, unchanged_options, deleted_options),
        each a list of acceptable lists."""
        o = self.objs[name]
        a = self.att[(name, attr)]
        if a.current is UNTOUCHED:
            if attr in o.__dict__:
                return [[]], [[o.__dict__[attr]]], [[]]
            return [[]], [[]], [[]]
        cur = a.current
        if a.committed[0] == "v":
            c0 = a.committed[1]
            if cur is DEL:
                return [[], [None]], [[]], ([[c0]] if c0 is not None else [[], [None]])
            if cur[1] == c0:
                return [[]], [[c0]], [[]]
            return [[cur[1]]], [[]], ([[c0]] if c0 is not None else [[None], []])
        # old value never known
        if cur is DEL:
            return [[], [None]], [[]], [[]]
        return [[cur[1]]], [[]], [[]]

    def expect_parent(self, cname):
        o = self.objs[cname]
        a = self.att[(cname, "parent")]
        if a.current is UNTOUCHED:
            if "parent" in o.__dict__:
                return [[]], [[o.__dict__["parent"]]], [[]]
            return [[]], [[]], [[]]
        cur = a.current
        curv = None if cur is DEL else cur[1]
        added_del = [[], [None]]
        if a.committed[0] == "v":
            c0 = a.committed[1]
            if cur is not DEL and curv is c0:
                return [[]], [[c0]], [[]]
            dele = [[c0]] if c0 is not None else [[], [None]]
            return (added_del if cur is DEL else [[curv]]), [[]], dele
        # old target never loaded (UNKNOWN) or a new object (ABSENT, the library sees None)
        alt = self.pobj(a.alt_deleted) if a.committed is UNKNOWN else None
        dele = [[]] + ([[alt]] if alt is not None else [[None]])
        if cur is not DEL and curv is alt:
            # set to what it (unknowingly) was: either "added" or recognised as unchanged
            # (the library may resolve the old target / a NULL foreign key without SQL)
            return [[curv], []], [[], [curv]], [[]]
        if cur is not DEL and curv is None and cname in self.fk_dirty:
            # FK attribute written directly on an expired object: its committed FK is not
            # known in memory, the old target may resolve to None
            return [[None], []], [[], [None]], dele
        return (added_del if cur is DEL else [[curv]]), [[]], dele

    # ---- the comparison ---------------------------------------------------------
    @staticmethod
    def ids(seq):
        return sorted(id(x) if not isinstance(x, (str, int, type(None))) else hash(("v", x)) for x in seq)

    def same(self, got, options):
        g = self.ids(got)
        return any(g == self.ids(opt) for opt in options)

    def check_histories(self, where):
        try:
            self._check_histories(where)
        except (AttributeError, KeyError, TypeError, ValueError) as e:
            import traceback

            tb = traceback.extract_tb(e.__traceback__)
            if not any("/sqlalchemy/" in f.filename for f in tb[-3:]):
                raise                       # harness bug, not the library
            self.viol("history-access-raises:" + type(e).__name__,
                      f"reading AttributeState.history {where} raised {type(e).__name__}: {str(e)[:120]}")

    def _check_histories(self, where):
        for name, o in self.objs.items():
            st = self.inspect(o)
            attrs = ("name", "n") if self.kind[name] == "p" else ("v",)
            for attr in attrs:
                h = getattr(st.attrs, attr).history
                ea, eu, ed = self.expect_scalar(name, attr)
                self.ctx.count("history_checks")
                a = self.att[(name, attr)]
                if a.current is not UNTOUCHED:
                    if a.committed[0] != "v":
                        self.ctx.count("unknown_old_checks")
                    elif a.current is not DEL and a.current[1] == a.committed[1]:
                        self.ctx.count("set_back_checks")
                    else:
                        self.ctx.count("scalar_changed_checks")
                if not (self.same(h.added, ea) and self.same(h.unchanged, eu) and self.same(h.deleted, ed)):
                    part = "added" if not self.same(h.added, ea) else "unchanged" if not self.same(h.unchanged, eu) else "deleted"
                    self.viol(f"scalar-history-{part}-wrong:{self.shape(a)}",
                              f"{name}.{attr} {where}: history {tuple(map(list, h))} expected added in {ea} unchanged in {eu} deleted in {ed}",
                              attr=f"{name}.{attr}")
                    return
            if self.kind[name] == "c":
                h = st.attrs.parent.history
                ea, eu, ed = self.expect_parent(name)
                self.ctx.count("history_checks")
                self.ctx.count("m2o_checks")
                if not (self.same(h.added, ea) and self.same(h.unchanged, eu) and self.same(h.deleted, ed)):
                    part = "added" if not self.same(h.added, ea) else "unchanged" if not self.same(h.unchanged, eu) else "deleted"
                    a = self.att[(name, "parent")]
                    show = lambda seqs: [[self.nm(x) for x in s_] for s_ in seqs]
                    self.viol(f"m2o-history-{part}-wrong:{self.shape(a)}",
                              f"{name}.parent {where}: history {[[self.nm(x) for x in part_] for part_ in h]} expected added in {show(ea)} "
                              f"unchanged in {show(eu)} deleted in {show(ed)}", attr=f"{name}.parent")
                    return
            else:
                if name in self.frozen:
                    continue
                h = st.attrs.children.history
                c = self.coll[name]
                cur = self.members(name)
                loaded = "children" in o.__dict__
                self.ctx.count("history_checks")
                got = tuple(sorted(self.nm(x) or "None" for x in part_) for part_ in h)
                if c["mode"] == "untouched":
                    exp = ([], sorted(self.nm(x) for x in self.coll_values(o)) if loaded else [], [])
                elif c["mode"] == "known":
                    self.ctx.count("collection_changed_checks")
                    exp = (sorted(cur - c["committed"]), sorted(cur & c["committed"]), sorted(c["committed"] - cur))
                elif not loaded:
                    # AttributeState.history never loads and does not include queued
                    # back-reference mutations of an unloaded collection (blank is the
                    # documented answer); the queued net change is what the unit of work
                    # reads: attributes.get_history(..., INCLUDE_PENDING_MUTATIONS)
                    from sqlalchemy.orm import attributes as A_

                    if any(list(part_) for part_ in h):
                        self.viol("collection-history-nonblank-for-unloaded-collection",
                                  f"{name}.children {where}: {got} for an unloaded collection", attr=f"{name}.children")
                        return
                    h = A_.get_history(o, "children", passive=A_.PASSIVE_NO_INITIALIZE | A_.PassiveFlag.INCLUDE_PENDING_MUTATIONS)
                    got = tuple(sorted(self.nm(x) or "None" for x in part_) for part_ in h)
                    self.ctx.count("pending_collection_checks")
                    got = tuple(sorted(x for x in part_ if x not in c["maybe"]) for part_ in got)
                    exp = (sorted(c["padd"] - c["maybe"]), None, sorted(c["prem"] - c["maybe"]))
                else:
                    # it got loaded after the queueing (e.g. by a direct operation): the
                    # library merged the queue into the loaded collection; the net change
                    # is against the database members
                    c["mode"] = "known"
                    c["committed"] = {n for n, p_ in self.dbrel().items() if p_ == name}
                    self.ctx.count("collection_changed_checks")
                    exp = (sorted(cur - c["committed"]), sorted(cur & c["committed"]), sorted(c["committed"] - cur))
                bad = [i for i in range(3) if exp[i] is not None and list(got[i]) != list(exp[i])]
                if bad:
                    part = ("added", "unchanged", "deleted")[bad[0]]
                    self.viol(f"collection-history-{part}-wrong:{c['mode']}",
                              f"{name}.children {where}: history {got} expected {exp}", attr=f"{name}.children")
                    return

    @staticmethod
    def coll_values(o):
        coll = o.__dict__["children"]
        return list(coll.values()) if isinstance(coll, dict) else list(coll)

    @staticmethod
    def shape(a):
        c = a.committed[0] if a.committed else "none"
        cur = "untouched" if a.current is UNTOUCHED else "del" if a.current is DEL else "value"
        return f"old-{c if c != 'v' else 'known'}:cur-{cur}"


# --------------------------------------------------------------------------
# operations (each updates the model first-touch info from the pre-op __dict__)
# --------------------------------------------------------------------------
def op_set_scalar(m, name, attr, how):
    o = m.objs[name]
    was, val = attr in o.__dict__, o.__dict__.get(attr)
    a = m.att[(name, attr)]
    if how == "same":
        if a.current is UNTOUCHED and not was:
            return None
        v = val if a.current is UNTOUCHED else (None if a.current is DEL else a.current[1])
        if a.current is DEL:
            return None
    elif how == "orig":
        if a.current is UNTOUCHED:
            return None
        if a.committed[0] == "v":
            v = a.committed[1]
            m.setbacks += 1
        elif name not in m.new:
            v = m.db[(name, attr)]
        else:
            return None
    elif how == "none":
        v = None
    else:
        v = m.uniq("s") if attr != "n" else 1000 + m.uniq_int()
    m.touch_scalar(name, attr, was, val)
    setattr(o, attr, v)
    a.current = ("v", v)
    return ("set", name, attr, how)


def op_del_scalar(m, name, attr):
    o = m.objs[name]
    was, val = attr in o.__dict__, o.__dict__.get(attr)
    a = m.att[(name, attr)]
    if a.current is DEL or not was:
        return None        # only a value that is present is deleted (else AttributeError by design)
    m.touch_scalar(name, attr, was, val)
    delattr(o, attr)
    a.current = DEL
    return ("del", name, attr)


def op_read(m, name, attr):
    a = m.att.get((name, attr))
    if a is not None and a.current is DEL:
        return None
    o = m.objs[name]
    if name in m.new and attr not in o.__dict__:
        return None
    getattr(o, attr)
    return ("read", name, attr)


def relink(m, cname, new_parent, via, pre=None):
    """cname gets parent new_parent (name or None). via = 'm2o' (c.parent = ...) | 'del' | 'append' | 'remove'.
    Updates first-touch knowledge for both sides, then the relation."""
    c = m.objs[cname]
    old_parent = m.rel[cname]
    # --- child side
    was, val = pre if pre is not None else ("parent" in c.__dict__, c.__dict__.get("parent"))
    a = m.touch_parent(cname, was, val, direct=via in ("m2o", "del"))
    if not was and a.committed is UNKNOWN and old_parent and via in ("m2o", "del", "append"):
        m.frozen.add(old_parent)
    # --- collection sides (old and new parent)
    for pn in {old_parent, new_parent} - {None}:
        if pn not in m.objs:
            continue       # phantom parent: never loaded, nothing to model on its side
        p = m.objs[pn]
        loaded = "children" in p.__dict__
        members = {m.nm(x) for x in Model.coll_values(p)} if loaded else set()
        direct = via in ("append", "remove") and pn == (new_parent if via == "append" else old_parent)
        col = m.touch_coll(pn, loaded, members, direct)
        if col["mode"] == "pending":
            if cname in col["maybe"]:
                pass
            elif not was and a.committed is UNKNOWN:
                # the child's reference to this parent was not loaded: the library cannot
                # know it leaves this collection, so whether a removal is queued (and what a
                # later re-add does) is not determined - this member is not judged
                col["maybe"].add(cname)
                col["padd"].discard(cname)
            elif pn == new_parent and pn != old_parent:
                if cname in col["prem"]:
                    col["prem"].discard(cname)
                else:
                    col["padd"].add(cname)
            elif pn == old_parent and pn != new_parent:
                if cname in col["padd"]:
                    col["padd"].discard(cname)
                else:
                    col["prem"].add(cname)
    m.rel[cname] = new_parent
    a.current = DEL if via == "del" else ("v", m.objs[new_parent] if new_parent else None)


def op_child_parent(m, cname, target):
    c = m.objs[cname]
    if target == "del":
        a = m.att[(cname, "parent")]
        if a.current is DEL or (cname in m.new and c.__dict__.get("parent") is None):
            return None    # (a new object without a value: AttributeError by design)
        if "parent" not in c.__dict__:
            m.ctx.count("del_parent_unloaded_checks")
        relink(m, cname, None, "del")
        del c.parent
        return ("del_parent", cname)
    relink(m, cname, target, "m2o")
    c.parent = m.objs[target] if target else None
    return ("set_parent", cname, target)


def coll_add(p, c, kind, how="append"):
    coll = p.children
    if kind == "list":
        if how == "insert":
            coll.insert(0, c)
        else:
            coll.append(c)
    elif kind == "set":
        coll.add(c)
    else:
        coll[c.k] = c


def coll_remove(p, c, kind):
    coll = p.children
    if kind == "list":
        coll.remove(c)
    elif kind == "set":
        coll.remove(c)
    else:
        del coll[c.k]


def new_child(m):
    C = m.rig.cls["C"]
    c = C()
    name = m.uniq("nc")
    c.k = "k-" + name
    c.v = "v-" + name
    m.register(name, c, "c", new=True)
    # v was set at construction: part of the model
    m.att[(name, "v")].committed = ABSENT
    m.att[(name, "v")].current = ("v", c.v)
    return name


def op_append(m, pname, which, ckind, how="append"):
    if pname in m.frozen:
        return None
    if which == "new":
        cname = new_child(m)
    else:
        cname = which
        if m.rel[cname] == pname:
            return None
    relink(m, cname, pname, "append")
    coll_add(m.objs[pname], m.objs[cname], ckind, how)
    return ("append", pname, "new" if which == "new" else cname, how)


def op_remove(m, pname, ckind, rng):
    if pname in m.frozen:
        return None
    mem = sorted(m.members(pname))
    if not mem:
        return None
    cname = rng.choice(mem)
    relink(m, cname, None, "remove")
    coll_remove(m.objs[pname], m.objs[cname], ckind)
    return ("remove", pname, cname)


def op_replace(m, pname, ckind, rng, clear=False):
    if pname in m.frozen:
        return None
    p = m.objs[pname]
    mem = sorted(m.members(pname))
    keep = [] if clear else [x for x in mem if rng.random() < 0.5]
    add = [] if clear else [new_child(m) for _ in range(rng.randint(0, 2))]
    target = keep + add
    for cname in mem:
        if cname not in target:
            relink(m, cname, None, "remove")
    for cname in add:
        relink(m, cname, pname, "append")
    objs = [m.objs[x] for x in target]
    if clear and ckind != "dict" and rng.random() < 0.5:
        p.children.clear()
    elif ckind == "list":
        p.children = objs
    elif ckind == "set":
        p.children = set(objs)
    else:
        p.children = {o.k: o for o in objs}
    return ("clear" if clear else "replace", pname, len(keep), len(add))


MUTATORS = {
    "list": ["append", "insert", "extend", "iadd", "remove", "pop", "pop0", "delitem", "setitem", "setslice", "delslice",
             "clear"],
    "set": ["add", "update", "ior", "discard", "remove", "pop", "clear", "difference_update", "isub",
            "intersection_update", "iand", "symmetric_difference_update", "ixor"],
    "dict": ["setitem_new", "setitem_replace", "delitem", "pop", "pop_default", "pop_missing_default", "popitem", "clear",
             "update", "setdefault_new", "setdefault_present"],
}


def op_mutate(m, pname, ckind, rng, which=None):
    """Any mutator of the instrumented collection class, as the application would call it.
    What left / joined the collection is read off the collection itself (before / after),
    the model is then updated with the pre-operation load state of every child."""
    if pname in m.frozen:
        return None
    p = m.objs[pname]
    mut = which or rng.choice(MUTATORS[ckind])
    kids = [n for n in m.kind if m.kind[n] == "c"]
    pre = {n: ("parent" in m.objs[n].__dict__, m.objs[n].__dict__.get("parent")) for n in kids}
    was_loaded = "children" in p.__dict__
    members0 = {m.nm(x) for x in Model.coll_values(p)} if was_loaded else set()
    first = m.coll[pname]["mode"] == "untouched"
    m.touch_coll(pname, was_loaded, members0, direct=True)
    coll = p.children                      # (loads, as every direct operation does)

    def vals():
        return list(coll.values()) if isinstance(coll, dict) else list(coll)

    before = [m.nm(x) for x in vals()]
    if set(before) != m.members(pname):
        return None                        # (stale side of an un-modelled relation: not judged)
    fresh = []

    def newc():
        n = new_child(m)
        fresh.append(n)
        pre[n] = (False, None)
        return m.objs[n]

    outsiders = [m.objs[n] for n in kids if m.rel[n] != pname and n not in m.new]
    present = vals()
    if ckind == "list":
        if mut == "append":
            coll.append(newc())
        elif mut == "insert":
            coll.insert(rng.randint(0, len(present)), newc())
        elif mut == "extend":
            coll.extend([newc(), newc()])
        elif mut == "iadd":
            coll += [newc()]
        elif mut == "clear":
            coll.clear()
        elif not present:
            return None
        elif mut == "remove":
            coll.remove(rng.choice(present))
        elif mut == "pop":
            coll.pop()
        elif mut == "pop0":
            coll.pop(0)
        elif mut == "delitem":
            del coll[rng.randrange(len(present))]
        elif mut == "setitem":
            coll[rng.randrange(len(present))] = newc()
        elif mut == "setslice":
            coll[0:1] = [newc(), newc()]
        elif mut == "delslice":
            del coll[0:2]
    elif ckind == "set":
        if mut == "add":
            coll.add(newc())
        elif mut == "update":
            coll.update([newc(), newc()])
        elif mut == "ior":
            coll |= {newc()}
        elif mut == "clear":
            coll.clear()
        elif mut == "symmetric_difference_update":
            coll.symmetric_difference_update(set(present[:1]) | {newc()})
        elif mut == "ixor":
            coll ^= set(present[:1]) | {newc()}
        elif not present:
            return None
        elif mut == "discard":
            coll.discard(rng.choice(present))
        elif mut == "remove":
            coll.remove(rng.choice(present))
        elif mut == "pop":
            coll.pop()
        elif mut == "difference_update":
            coll.difference_update(present[:1])
        elif mut == "isub":
            coll -= set(present[:1])
        elif mut == "intersection_update":
            coll.intersection_update(present[1:])
        elif mut == "iand":
            coll &= set(present[1:])
    else:
        keys = list(coll.keys())
        if mut == "setitem_new":
            c = newc()
            coll[c.k] = c
        elif mut == "update":
            c1, c2 = newc(), newc()
            coll.update({c1.k: c1, c2.k: c2})
        elif mut == "setdefault_new":
            c = newc()
            coll.setdefault(c.k, c)
        elif mut == "clear":
            coll.clear()
        elif mut == "pop_missing_default":
            coll.pop("no-such-key", None)
        elif not keys:
            return None
        elif mut == "setitem_replace":
            c = newc()
            c.k = keys[0]
            old = coll[keys[0]]
            coll[keys[0]] = c
            old.k = m.uniq("rk")    # two children must never share a key (a later re-add would collide)
        elif mut == "delitem":
            del coll[rng.choice(keys)]
        elif mut == "pop":
            coll.pop(rng.choice(keys))
        elif mut == "pop_default":
            coll.pop(rng.choice(keys), None)
        elif mut == "popitem":
            coll.popitem()
        elif mut == "setdefault_present":
            coll.setdefault(keys[0], present[0])
    after = [m.nm(x) for x in vals()]
    for n in before:
        if n not in after:
            relink(m, n, None, "remove", pre=pre[n])
    for n in after:
        if n not in before:
            relink(m, n, pname, "append", pre=pre[n])
    # children created for the call that did not end up in the collection stay unrelated
    m.ctx.count("mutator_ops")
    m.ctx.seen("mutators", f"{ckind}.{mut}")
    if first:
        m.ctx.count("mutator_as_first_mutation")
    return ("mutate", pname, mut)


def op_set_fk(m, cname, rng, target="random"):
    """Write the foreign key column attribute directly (committed FK != current FK).  The
    relationship attribute is documented not to follow; the row of such a child is not
    judged at flush, its attribute histories are."""
    if cname in m.new:
        return None
    c = m.objs[cname]
    if target == "random":
        target = rng.choice([1, 2, 3, None])
    c.p_id = target
    m.fk_dirty.add(cname)
    m.ctx.count("fk_written_directly")
    return ("set_fk", cname, target)


# --------------------------------------------------------------------------
# case
# --------------------------------------------------------------------------
def seed(rig):
    con = rig.obs
    con.execute("INSERT INTO p (id, name, n) VALUES (1,'p1',1),(2,'p2',2),(3,'p3',3)")
    con.execute("INSERT INTO c (id, p_id, v, k) VALUES (1,1,'c1','k1'),(2,1,'c2','k2'),(3,2,'c3','k3'),(4,NULL,'c4','k4'),"
                "(5,3,'c5','k5')")


def build_case(ctx, rig, subject, ckind, ah, desc):
    from sqlalchemy import select
    from sqlalchemy.orm import load_only

    P, C = rig.cls["P"], rig.cls["C"]
    s = rig.session(autoflush=False)
    m = Model(ctx, rig, s, desc, ah)
    m.uniq_int = lambda: (setattr(m, "fresh", m.fresh + 1) or m.fresh)
    if subject == "partial":
        p1 = s.scalars(select(P).where(P.id == 1).options(load_only(P.name))).one()
    else:
        p1 = s.get(P, 1)
    p2 = s.get(P, 2)
    cs = {i: s.get(C, i) for i in (1, 2, 3, 4, 5)}
    m.phantom["p3"] = 3      # P(3) is never loaded by the harness: c5's parent is not in the identity map
    if subject == "loaded-coll":
        p1.children
        cs[1].parent
    m.register("p1", p1, "p", db={"name": "p1", "n": 1})
    m.register("p2", p2, "p", db={"name": "p2", "n": 2})
    for i, par in ((1, "p1"), (2, "p1"), (3, "p2"), (4, None), (5, "p3")):
        m.register(f"c{i}", cs[i], "c", db={"v": f"c{i}"}, parent=par)
    if subject == "expired":
        s.commit()
    elif subject == "new":
        pn = P()
        pn.id = 50
        m.register("pn", pn, "p", new=True)
        if ctx.rng.random() < 0.5:
            s.add(pn)
    return s, m


def run_script(ctx, rig, subject, ckind, ah, script):
    """A fixed op list (the enumerated many-to-one product) through the same model and checks."""
    rng = ctx.rng
    rig.wipe()
    seed(rig)
    desc = {"subject": subject, "collection": ckind, "active_history": ah, "ops": []}
    s, m = build_case(ctx, rig, subject, ckind, ah, desc)
    try:
        m.check_histories("at start")
        for op in script:
            if m.violated:
                break
            if op[0] == "load_parent":
                m.objs[op[1]].parent          # plain read: loads, no history
                d = op
            elif op[0] == "set_fk":
                d = op_set_fk(m, op[1], rng, target=op[2])
            elif op[0] == "del_parent":
                d = op_child_parent(m, op[1], "del")
            else:
                d = op_child_parent(m, op[1], op[2])
            if d is None:
                continue
            desc["ops"].append(list(d))
            m.check_histories(f"after {tuple(d)}")
        if not m.violated:
            flush_and_check(ctx, rig, s, m, "p1")
    finally:
        s.close()
        rig.sessions.remove(s)
    ctx.count("m2o_product_cases")
    ctx.case({"subject": subject, "coll": ckind, "ah": ah, "ops": desc["ops"]}, nontrivial=len(desc["ops"]) >= 2)
    return m


def gen_and_run(ctx, rig, subject, ckind, ah, length):
    rng = ctx.rng
    rig.wipe()
    seed(rig)
    desc = {"subject": subject, "collection": ckind, "active_history": ah, "ops": []}
    s, m = build_case(ctx, rig, subject, ckind, ah, desc)
    main = "pn" if subject == "new" else "p1"
    try:
        m.check_histories("at start")
        steps = 0
        tries = 0
        while steps < length and tries < 60 and not m.violated:
            tries += 1
            kind = rng.choices(
                ["set", "del", "read", "set_v", "append_new", "append_old", "insert_new", "remove", "replace", "clear",
                 "set_parent", "del_parent", "mutate", "set_fk"],
                [10, 2, 3, 4, 4, 4, 1, 3, 3, 1, 7, 4, 10, 3])[0]
            pname = main if rng.random() < 0.8 else rng.choice(["p1", "p2"])
            kids = [n for n in m.kind if m.kind[n] == "c"]
            if kind == "set":
                d = op_set_scalar(m, pname, rng.choice(["name", "n"]), rng.choice(["new", "new", "same", "orig", "none"]))
            elif kind == "del":
                d = op_del_scalar(m, pname, rng.choice(["name", "n"]))
            elif kind == "read":
                d = op_read(m, pname, rng.choice(["name", "n"]))
            elif kind == "set_v":
                d = op_set_scalar(m, rng.choice(kids), "v", rng.choice(["new", "same", "orig"]))
            elif kind == "append_new":
                d = op_append(m, pname, "new", ckind)
            elif kind == "insert_new":
                d = op_append(m, pname, "new", ckind, "insert")
            elif kind == "append_old":
                d = op_append(m, pname, rng.choice(kids), ckind)
            elif kind == "remove":
                d = op_remove(m, pname, ckind, rng)
            elif kind == "replace":
                d = op_replace(m, pname, ckind, rng)
            elif kind == "clear":
                d = op_replace(m, pname, ckind, rng, clear=True)
            elif kind == "mutate":
                d = op_mutate(m, pname, ckind, rng)
            elif kind == "set_fk":
                d = op_set_fk(m, rng.choice(kids), rng)
            elif kind == "set_parent":
                d = op_child_parent(m, rng.choice(kids), rng.choice([main, "p1", "p2", None]))
            else:
                d = op_child_parent(m, rng.choice(kids), "del")
            if d is None:
                continue
            desc["ops"].append(list(d))
            ctx.seen("ops", d[0])
            steps += 1
            m.check_histories(f"after {d}")
        if not m.violated:
            flush_and_check(ctx, rig, s, m, main)
    finally:
        s.close()
        rig.sessions.remove(s)
    changed = sum(1 for a in m.att.values() if a.current is not UNTOUCHED)
    ctx.case({"subject": subject, "coll": ckind, "ah": ah, "ops": desc["ops"]}, nontrivial=changed >= 2 or m.setbacks > 0)
    return m


# --------------------------------------------------------------------------
# input class: back-reference mutations queued against an UNLOADED collection, then a full
# expire (rollback / expire_all) before any flush, then load + history + flush
# --------------------------------------------------------------------------
def queued_then_expired(ctx, rig, ckind, ah, action, preload, how):
    from sqlalchemy import inspect

    rig.wipe()
    seed(rig)
    P, C = rig.cls["P"], rig.cls["C"]
    s = rig.session(autoflush=False)
    desc = {"part": "queued-then-expired", "collection": ckind, "active_history": ah, "action": action,
            "child_parent_loaded": preload, "expire": how}
    try:
        p1, p2 = s.get(P, 1), s.get(P, 2)
        cs = {i: s.get(C, i) for i in (1, 2, 3, 4)}
        child = {"move_away": cs[1], "to_none": cs[2], "move_in": cs[3], "orphan_in": cs[4]}.get(action)
        if action == "new_in":
            child = C()
            child.k, child.v = "k-new", "v-new"
        if preload and action != "new_in":
            child.parent
        # the mutation on the scalar side; p1.children is not loaded, so the library can only queue
        child.parent = {"move_away": p2, "to_none": None}.get(action, p1)
        if "children" in p1.__dict__:
            return                      # (the library loaded it: nothing was queued, not this input class)
        before_c = rig.truth("SELECT id, p_id FROM c ORDER BY id")
        if how == "rollback":
            s.rollback()
        elif how == "expire_all":
            s.expire_all()
        else:
            s.expire(p1)
            if action != "new_in":
                s.expire(child)
            s.expire(p2)
        if action == "new_in" and child in s:
            s.expunge(child)            # expire_all does not evict a pending object; the change is dropped by hand
        ctx.count("queued_then_expired_cases")
        mark = rig.spy.mark()
        members = sorted(x.id for x in Model.coll_values(p1) if "children" in p1.__dict__) if False else None
        loaded = list(p1.children.values()) if isinstance(p1.children, dict) else list(p1.children)
        got = sorted(x.__dict__.get("id") or inspect(x).identity[0] for x in loaded if inspect(x).key)
        want = sorted(r[0] for r in rig.truth("SELECT id FROM c WHERE p_id = 1"))
        h = inspect(p1).attrs.children.history
        viol = None
        if got != want or any(not inspect(x).key for x in loaded):
            viol = ("collection-differs-from-database-after-expire", f"p1.children ids {got} (+{sum(1 for x in loaded if not inspect(x).key)} unsaved), database {want}")
        elif list(h.added) or list(h.deleted):
            viol = ("phantom-history-after-expire", f"history {tuple(map(list, h))}")
        elif p1 in s.dirty:
            viol = ("parent-dirty-after-expire", "p1 in session.dirty though nothing changed since the expire")
        else:
            s.flush()
            dml = [e.sql for e in rig.nstatements(mark) if not str(e.sql).lstrip().upper().startswith(("SELECT", "SAVEPOINT", "RELEASE"))]
            after_c = rig.truth("SELECT id, p_id FROM c ORDER BY id")
            if dml or after_c != before_c:
                viol = ("phantom-change-flushed-after-expire", f"flush emitted {dml[:2]}; c rows {before_c} -> {after_c}")
        if viol:
            ctx.violation("queued-backref-mutation-survives-expire:" + viol[0], f"{action}/{how}: {viol[1]}", desc)
        ctx.case(desc, nontrivial=True)
    finally:
        s.close()
        rig.sessions.remove(s)


# --------------------------------------------------------------------------
# input class: members moved between two loaded collections of a one-way one-to-many (no
# back-reference), in both operation orders; judged on histories, flushed rows and reload
# --------------------------------------------------------------------------
def move_without_backref(ctx, rig, ckind, cascade, order, flavour, swap):
    from sqlalchemy import inspect

    rig.wipe()
    seed(rig)
    P, C = rig.cls["P"], rig.cls["C"]
    s = rig.session()
    desc = {"part": "move-without-backref", "collection": ckind, "cascade": cascade, "order": order,
            "remove_flavour": flavour, "swap": swap}

    def vals(p):
        return list(p.children.values()) if isinstance(p.children, dict) else list(p.children)

    def add(p, c):
        if ckind == "list":
            p.children.append(c)
        elif ckind == "set":
            p.children.add(c)
        else:
            p.children[c.k] = c

    def rem(p, c):
        coll = p.children
        if ckind == "list":
            if flavour == "remove":
                coll.remove(c)
            elif flavour == "pop":
                coll.pop(coll.index(c))
            elif flavour == "del":
                del coll[coll.index(c)]
            elif flavour == "slice":
                i = coll.index(c)
                del coll[i:i + 1]
            else:
                p.children = [x for x in coll if x is not c]
        elif ckind == "set":
            if flavour == "remove":
                coll.remove(c)
            elif flavour == "pop" or flavour == "del":
                coll.discard(c)
            elif flavour == "slice":
                coll.difference_update([c])
            else:
                p.children = {x for x in coll if x is not c}
        else:
            if flavour == "remove" or flavour == "del":
                del coll[c.k]
            elif flavour == "pop" or flavour == "slice":
                coll.pop(c.k)
            else:
                p.children = {k: x for k, x in coll.items() if x is not c}

    try:
        p1, p2 = s.get(P, 1), s.get(P, 2)
        vals(p1), vals(p2)                               # both collections loaded
        c1 = next(x for x in vals(p1) if x.id == 1)
        c3 = next(x for x in vals(p2) if x.id == 3)
        moves = [(c1, p1, p2)] + ([(c3, p2, p1)] if swap else [])
        if order == "append-then-remove":
            for c, old, new in moves:
                add(new, c)
            for c, old, new in moves:
                rem(old, c)
        else:
            for c, old, new in moves:
                rem(old, c)
            for c, old, new in moves:
                add(new, c)
        ctx.count("moves_without_backref")
        exp_mem = {1: {2} | ({3} if swap else set()), 2: ({1} if True else set()) | (set() if swap else {3})}
        mem = {1: {x.id for x in vals(p1)}, 2: {x.id for x in vals(p2)}}
        viol = None
        if mem != exp_mem:
            viol = ("collections-in-memory-wrong", f"{mem} expected {exp_mem}")
        else:
            for p, pid in ((p1, 1), (p2, 2)):
                h = inspect(p).attrs.children.history
                ea = sorted(c.id for c, old, new in moves if new is p)
                ed = sorted(c.id for c, old, new in moves if old is p)
                if sorted(x.id for x in h.added) != ea or sorted(x.id for x in h.deleted) != ed:
                    viol = ("history-wrong", f"p{pid}.children history {[[x.id for x in part] for part in h]} expected added {ea} deleted {ed}")
                    break
        if viol is None:
            s.flush()
            rows = dict(rig.truth("SELECT id, p_id FROM c WHERE id IN (1, 2, 3)"))
            want = {1: 2, 2: 1, 3: 1 if swap else 2}
            if rows != want:
                viol = ("flushed-rows-differ-from-collections", f"c.p_id rows {rows} expected {want}")
            else:
                s.commit()
                s.expire_all()
                mem2 = {1: {x.id for x in vals(p1)}, 2: {x.id for x in vals(p2)}}
                if mem2 != exp_mem:
                    viol = ("reload-differs-from-memory", f"reloaded {mem2}, in memory before {exp_mem}")
        if viol:
            ctx.violation("move-between-collections-without-backref:" + viol[0], f"{order}/{flavour}/swap={swap}: {viol[1]}", desc)
        ctx.case(desc, nontrivial=True)
    finally:
        s.close()
        rig.sessions.remove(s)


SET_RE = re.compile(r"UPDATE (\w+) SET (.*?) WHERE", re.S)


def flush_and_check(ctx, rig, s, m, main):
    # every object of the model that is not in the session and has a row-to-be: add the new parent
    if "pn" in m.objs and m.objs["pn"] not in s:
        s.add(m.objs["pn"])
    # expected UPDATE columns per (table, pk) -- from the model, before the flush
    net = {}
    for (name, attr), a in m.att.items():
        if attr == "parent" or name in m.new or a.current is UNTOUCHED:
            continue
        if a.committed[0] == "v" and a.current is not DEL and a.current[1] == a.committed[1]:
            continue
        if a.committed[0] == "v" and a.current is DEL and a.committed[1] is None:
            continue
        net.setdefault(name, set()).add(attr)
    has_del = any(a.current is DEL and attr != "parent" and name not in m.new for (name, attr), a in m.att.items())
    mark = rig.spy.mark()
    ctx.count("flushes")
    try:
        s.flush()
    except KeyError as e:
        if has_del:
            m.viol("flush-keyerror-after-del-of-column-attribute",
                   f"flush raised KeyError({e}) after `del obj.<column attribute>` on a persistent object "
                   "(documented: del works like setting None)")
            s.rollback()
            return
        raise
    except Exception as e:
        # every sequence is a valid program (none of them ever makes the unchanged library
        # raise): a flush that fails did not persist the difference
        m.viol("flush-raises:" + type(e).__name__, f"flush raised {type(e).__name__}: {str(e)[:140]}")
        s.rollback()
        return
    # ---- histories are reset
    for name, o in m.objs.items():
        if o not in s:
            continue
        st = m.inspect(o)
        for attr in (("name", "n", "children") if m.kind[name] == "p" else ("v", "parent")):
            h = getattr(st.attrs, attr).history
            ctx.count("post_flush_history_checks")
            if list(h.added) or list(h.deleted):
                m.viol("history-not-reset-after-flush", f"{name}.{attr} reports {tuple(map(list, h))} after flush", attr=f"{name}.{attr}")
                return
    # ---- rows
    ids = {}
    for name, o in m.objs.items():
        if o in s:
            ids[name] = m.inspect(o).identity[0]
    ids.update(m.phantom)
    for name, o in m.objs.items():
        if name not in ids or name in m.fk_dirty:
            continue
        ctx.count("row_checks")
        if m.kind[name] == "p":
            row = rig.truth("SELECT name, n FROM p WHERE id=?", (ids[name],))
            exp = []
            for attr in ("name", "n"):
                a = m.att[(name, attr)]
                if a.current is UNTOUCHED:
                    exp.append(m.db.get((name, attr)))
                else:
                    exp.append(None if a.current is DEL else a.current[1])
            if not row or list(row[0]) != exp:
                m.viol("flushed-row-differs-from-current-values", f"{name}: row {row} expected {exp}", obj=name)
                return
        else:
            row = rig.truth("SELECT v, p_id FROM c WHERE id=?", (ids[name],))
            a = m.att[(name, "v")]
            v = m.db.get((name, "v")) if a.current is UNTOUCHED else (None if a.current is DEL else a.current[1])
            par = m.rel[name]
            pid = ids.get(par) if par else None
            if not row or list(row[0]) != [v, pid]:
                m.viol("flushed-row-differs-from-current-values", f"{name}: row {row} expected {[v, pid]}", obj=name)
                return
    # ---- UPDATE statements carry exactly the net scalar changes
    seen = {}
    for e in rig.nstatements(mark):
        mt = SET_RE.match(e.sql)
        if not mt:
            continue
        table = mt.group(1)
        cols = [c.split("=")[0].strip() for c in mt.group(2).split(",")]
        plist = e.params if e.kind == "executemany" else [e.params]
        for params in plist:
            pk = params[-1]
            seen.setdefault((table, pk), set()).update(c for c in cols if c not in ("p_id", "k"))
    for name, o in m.objs.items():
        if name in m.new or name not in ids or name in m.fk_dirty:
            continue
        table = m.kind[name]
        got = seen.get((table, ids[name]), set())
        exp = net.get(name, set())
        ctx.count("update_column_checks")
        if got != exp:
            m.viol("update-columns-differ-from-net-change:" + ("extra" if got - exp else "missing"),
                   f"{name}: UPDATE set {sorted(got)} but the net change is {sorted(exp)}", obj=name)
            return


def run(ctx):
    from vf.gen import ormrig_gj as R

    warnings.simplefilter("ignore")
    rng = ctx.rng
    per = ctx.pick({"quick": 10, "thorough": 300})
    subjects = ["loaded", "loaded-coll", "expired", "partial", "new"]
    sampled = 0
    prod_idx = [0]
    for ckind in ("list", "set", "dict"):
        for cascade in ("save-update, merge", "all, delete-orphan"):
            rig = R.Rig(ctx, [lambda sa, orm, reg, ck=ckind, ca=cascade: R.zoo_pc_nobackref(sa, orm, reg, collection=ck, cascade=ca)])
            try:
                for order in ("append-then-remove", "remove-then-append"):
                    for flavour in ("remove", "pop", "del", "slice", "assign"):
                        for swap in (False, True):
                            prod_idx[0] += 1
                            if ctx.mine(prod_idx[0]) and ctx.budget_ok():
                                move_without_backref(ctx, rig, ckind, cascade, order, flavour, swap)
            finally:
                rig.close()
    for ckind in ("list", "set", "dict"):
        for ah in (False, True):
            rig = R.Rig(ctx, [lambda sa, orm, reg, ck=ckind, ah=ah: R.zoo_pc(sa, orm, reg, collection=ck, active_history=ah)])
            try:
                for action in ("move_away", "to_none", "move_in", "orphan_in", "new_in"):
                    for preload in (True, False):
                        for how in ("rollback", "expire_all", "expire_each"):
                            prod_idx[0] += 1
                            if ctx.mine(prod_idx[0]) and ctx.budget_ok():
                                queued_then_expired(ctx, rig, ckind, ah, action, preload, how)
                # many-to-one product: {parent loaded, unloaded, expired} x child (target in the
                # identity map: c1, c3; no target: c4; target never loaded: c5) x FK column
                # attribute {untouched, written to 1 / 2 / 3 (not in the identity map) / None}
                # x {del, set p1, set p2, set None}
                for state in ("loaded", "unloaded", "expired"):
                    for cname in ("c1", "c3", "c4", "c5"):
                        for fk in ("keep", 1, 2, 3, None):
                            for act in ("del", "p1", "p2", None):
                                prod_idx[0] += 1
                                if not ctx.mine(prod_idx[0]) or not ctx.budget_ok():
                                    continue
                                script = []
                                if state == "loaded":
                                    script.append(("load_parent", cname))
                                if fk != "keep":
                                    script.append(("set_fk", cname, fk))
                                script.append(("del_parent", cname) if act == "del" else ("set_parent", cname, act))
                                run_script(ctx, rig, "expired" if state == "expired" else "loaded", ckind, ah, script)
                for subject in subjects:
                    for k in range(per):
                        if not ctx.budget_ok():
                            break
                        m = gen_and_run(ctx, rig, subject, ckind, ah, rng.randint(2, 8))
                        if sampled < 4 and not m.violated and len(m.desc["ops"]) >= 4 and k == 1:
                            ctx.sample(dict(m.desc))
                            sampled += 1
            finally:
                rig.close()
