"""C37 -- both sides of a bidirectional relationship always agree.

For every relationship kind (one-to-many with list / set / attribute_keyed_dict
collections, one-to-one, many-to-many with list / set collections; always
``back_populates``) a small universe of freshly created objects (2 on the "parent" side,
3 on the "child" side) is driven through mutation sequences applied to *either* side:
append / remove / insert / pop / item and slice assignment and deletion / += / extend /
swap / collection replacement / clear / ``del obj.attr`` / scalar set to an object or
None / the set operators (method and attribute-assignment forms) / the dict methods.

Oracle = the property itself, no model of the backref machinery:
  after every operation (also one that raised)   {(p, c) : c in p.kids}  ==
  {(p, c) : c.par is p}  (or  p in c.pars  for many-to-many), read from ``__dict__``
  while the objects are transient / pending;
  after ``flush(); expire_all()`` and a reload the two sides agree again *and* equal the
  pairs held in memory before the flush; the sequence then continues on the persistent,
  fully loaded objects (read through normal attribute access) and is flushed and
  reloaded once more.
Exhaustive: all sequences of length <= 3 (quick) / <= 4 (thorough) over a reduced
alphabet on 2 x 2 objects, for every kind; random: seeded sequences of up to 20
operations over the full alphabet on 2 x 3 objects.

Two further input classes (added after the second seeded-change round):
* list mutators with extended slices: every list collection (one-to-many, both sides of
  many-to-many) with 0..n members x every slice of the grid start/stop in {None,-4..4},
  step in {None,1,2,3,-1,-2} (thorough: also 4,-3) for deletion and for assignment of
  0 / 1 / all non-members / exactly-as-many-as-selected members, then deletion of the
  same slice; sides compared after each step, a ninth also after flush + reload.  The
  random sequences draw bounds in [-len-2, len+2] and steps {None,1,2,3,-1,-2} as well
  (the former restriction to C38's "simple domain" went away with b7b3380).
* backref mutations queued against UNLOADED collections: the parent-side collections are
  not loaded (objects fetched anew after expunge_all, or expired), autoflush is off, and
  every sequence (length <= 3 exhaustive over all attach/detach operations of the other
  side on 2 x 2 objects, from 4-5 initial link sets; random ones up to 8 operations on
  2 x 3 objects with one collection loaded midway) mutates the relationship through the
  other side only.  Then the collections are loaded: both sides must equal what the
  program did on the loaded side (``<kind>-queued-backref-sides-disagree-after-load``),
  and flush + expire + reload must keep exactly those pairs
  (``<kind>-queued-backref-lost-on-flush``).  list / set / dict x o2m / m2m.

Guards:
* many-to-many collections and keyed dicts never receive duplicates (duplicate
  association rows are a user error); for one-to-many lists duplicates are allowed in a
  fraction of the random sequences but a duplicated child is never moved to another
  parent, and any disagreement in a sequence that held a duplicate is reported under the
  single mechanism ``o2m-list-duplicate-members-backref``; reload compares sets.
* an extended-slice assignment whose right-hand side permutes current members is the same
  index-by-index assignment as a swap and is reported under the registered
  ``o2m-list-swap-member-lost-on-flush``.
* dict collections are keyed by the child's (immutable here) ``name``; ``coll[k] = c`` is
  only generated with ``k == c.name``.
* operations on a relationship attribute whose other side is not loaded are documented
  to defer the backref: the persistent phase loads every attribute first.
* one-to-one "steals" are not generated: assigning an object that another holder still
  references leaves the previous holder's scalar untouched ("doesn't extend to the
  previous attribute", pinned by test_backref_mutations.O2OScalarBackrefMoveTest).  The
  same one-hop limit through a keyed dict (``child.par = p`` displacing another child
  stored under the same key) is treated alike and not generated.
* ``del persistent_obj.collection`` has no documented persistence semantics (it updates
  backrefs in memory but writes nothing): generated for transient/pending objects only.
* the scenario "move + swap by item assignment" loses a row only for one of the two
  orders in which the unit of work can process the two parents (address dependent): it
  is repeated on fresh objects so that a run reports it with probability > 0.9999.

Findings on the unchanged tree (kept firing, see the report): ``o2m-dict-replace-raises-
invalidrequest``, ``o2m-list-swap-member-lost-on-flush``, ``o2m-list-duplicate-members-
backref`` (in memory) and ``o2m-list-duplicate-members-lost-on-flush`` (after reload; only
sequences that were allowed duplicates, mostly seen in the thorough tier).
"""
from __future__ import annotations

import itertools
import operator

META = {
    "id": "C37",
    "level": "exploration",
    "technique": "biconditional monitor over all object pairs after every mutation of either side; flush + expire + reload comparison",
    "level_text": "Exhaustive mutation sequences (length <= 3 quick, <= 4 thorough) over a reduced alphabet and seeded random sequences (<= 20 operations, full alphabet incl. slices, in-place set operators, dict methods, replacement, attribute deletion) on six bidirectional relationship kinds; the two sides are compared after every step, after flush+reload, and while continuing on persistent objects.",
    "level_note": "SQLite in-memory. Always back_populates (a one-sided relationship is stale by design). Unloaded other sides (deferred backrefs), viewonly, dynamic/write-only loaders and association-object patterns are outside this check.",
    "design_ref": "DESIGN.md section 4, C37",
    "rule": "case = (kind, operation sequence); non-trivial = at least two operations changed the set of related pairs; distinct by sequence",
    "shards": {"quick": 8, "thorough": 16},
    "soft_s": {"quick": 60, "thorough": 900},
    "exhaustive": {"quick": True, "thorough": True},
    "require": ["biconditional_checks", "pair_changes", "reload_checks", "persistent_steps", "failed_ops", "seq_steps",
                "slice_class_cases", "queued_ops", "queued_load_checks"],
    "assumptions": [],
}

MISSING = object()
EXPECTED_ERRORS = (IndexError, KeyError, ValueError, AttributeError, TypeError)


def fam_of(kind):
    return {"o2m_list": "list", "o2m_set": "set", "o2m_dict": "dict", "o2o": "scalar",
            "m2m_list": "list", "m2m_set": "set"}[kind]


class World:
    def __init__(self, env, kind, np=2, nc=3):
        P, C = env.classes[kind]
        self.kind = kind
        self.fam = fam_of(kind)
        self.m2m = kind.startswith("m2m")
        self.P = [P(name="p%d" % i) for i in range(np)]
        cnames = ["a", "b", "a", "c"] if self.fam == "dict" else ["c%d" % i for i in range(4)]
        self.C = [C(name=cnames[i]) for i in range(nc)]
        self.pidx = {id(o): i for i, o in enumerate(self.P)}
        self.cidx = {id(o): i for i, o in enumerate(self.C)}
        self.persistent = False
        self.dup_seen = False
        self.library_error = False
        self.changes = 0

    # ---- reading both sides ------------------------------------------------
    def _get(self, obj, attr):
        if self.persistent:
            return getattr(obj, attr)
        return obj.__dict__.get(attr, MISSING)

    def kids(self, p):
        v = self._get(p, "kids")
        if v is MISSING or v is None:
            return []
        if self.fam == "scalar":
            return [v]
        if self.fam == "dict":
            return list(v.values())
        return list(v)

    def parent_side(self):
        return {(i, self.cidx[id(c)]) for i, p in enumerate(self.P) for c in self.kids(p)}

    def child_side(self):
        out = set()
        for j, c in enumerate(self.C):
            if self.m2m:
                v = self._get(c, "pars")
                if v is not MISSING and v is not None:
                    out.update((self.pidx[id(p)], j) for p in v)
            else:
                v = self._get(c, "par")
                if v is not MISSING and v is not None:
                    out.add((self.pidx[id(v)], j))
        return out

    def has_dups(self):
        if self.fam != "list":
            return False
        for p in self.P:
            ks = self.kids(p)
            if len({id(k) for k in ks}) != len(ks):
                return True
        if self.m2m:
            for c in self.C:
                v = self._get(c, "pars")
                if v is not MISSING and len({id(k) for k in v}) != len(v):
                    return True
        return False


# --------------------------------------------------------------------------
# operations.  An op is a JSON-able tuple; holder side "P" -> attribute kids holding
# C objects, side "C" -> attribute pars (m2m) holding P objects.
# --------------------------------------------------------------------------
def holder(w, side, hi):
    if side == "P":
        return w.P[hi], "kids", w.C
    return w.C[hi], "pars", w.P


def current_members(w, side, hi):
    obj, attr, pool = holder(w, side, hi)
    v = w._get(obj, attr)
    if v is MISSING or v is None:
        return []
    if w.fam == "dict":
        return list(v.values())
    return list(v)


def simulate_list(cur, op, pool):
    """what a plain list would hold after the op (None if it raises)."""
    sim = list(cur)
    name = op[3]
    a = op[4:]
    try:
        if name == "append":
            sim.append(pool[a[0]])
        elif name == "remove":
            sim.remove(pool[a[0]])
        elif name == "insert":
            sim.insert(a[0], pool[a[1]])
        elif name == "pop":
            sim.pop(a[0])
        elif name == "setitem":
            sim[a[0]] = pool[a[1]]
        elif name == "delitem":
            del sim[a[0]]
        elif name == "setslice":
            sim[slice(*a[0])] = [pool[k] for k in a[1]]
        elif name == "delslice":
            del sim[slice(*a[0])]
        elif name in ("iadd", "extend"):
            sim.extend(pool[k] for k in a[0])
        elif name == "replace":
            sim = [pool[k] for k in a[0]]
        elif name in ("clear", "delattr"):
            sim = []
        elif name == "swap":
            sim[a[0]], sim[a[1]] = sim[a[1]], sim[a[0]]
    except Exception:
        return None
    return sim


def apply_coll(w, op):
    """op = ("coll", side, hi, name, *args)"""
    _, side, hi, name = op[:4]
    a = op[4:]
    obj, attr, pool = holder(w, side, hi)
    fam = w.fam
    if name == "replace":
        members = [pool[k] for k in a[0]]
        if fam == "set":
            setattr(obj, attr, set(members))
        elif fam == "dict":
            setattr(obj, attr, {m.name: m for m in members})
        else:
            setattr(obj, attr, list(members))
        return
    if name == "delattr":
        delattr(obj, attr)
        return
    coll = getattr(obj, attr)
    if fam == "list":
        if name == "append":
            coll.append(pool[a[0]])
        elif name == "remove":
            coll.remove(pool[a[0]])
        elif name == "insert":
            coll.insert(a[0], pool[a[1]])
        elif name == "pop":
            coll.pop(a[0])
        elif name == "setitem":
            coll[a[0]] = pool[a[1]]
        elif name == "delitem":
            del coll[a[0]]
        elif name == "setslice":
            coll[slice(*a[0])] = [pool[k] for k in a[1]]
        elif name == "delslice":
            del coll[slice(*a[0])]
        elif name == "iadd":
            setattr(obj, attr, operator.iadd(coll, [pool[k] for k in a[0]]))
        elif name == "extend":
            coll.extend(pool[k] for k in a[0])
        elif name == "clear":
            coll.clear()
        elif name == "swap":
            coll[a[0]], coll[a[1]] = coll[a[1]], coll[a[0]]
        else:
            raise AssertionError(op)
    elif fam == "set":
        arg = {pool[k] for k in a[0]} if a and isinstance(a[0], list) else None
        if name == "add":
            coll.add(pool[a[0]])
        elif name == "discard":
            coll.discard(pool[a[0]])
        elif name == "remove":
            coll.remove(pool[a[0]])
        elif name == "pop":
            coll.pop()
        elif name == "clear":
            coll.clear()
        elif name in ("update", "difference_update", "intersection_update", "symmetric_difference_update"):
            getattr(coll, name)(list(arg))
        elif name in ("ior", "isub", "iand", "ixor"):
            setattr(obj, attr, getattr(operator, name)(coll, arg))
        else:
            raise AssertionError(op)
    elif fam == "dict":
        if name == "setitem":
            m = pool[a[0]]
            coll[m.name] = m
        elif name == "delitem":
            del coll[a[0]]
        elif name == "pop":
            coll.pop(a[0])
        elif name == "pop_default":
            coll.pop(a[0], None)
        elif name == "popitem":
            coll.popitem()
        elif name == "update":
            coll.update({pool[k].name: pool[k] for k in a[0]})
        elif name == "update_pairs":
            coll.update([(pool[k].name, pool[k]) for k in a[0]])
        elif name == "setdefault":
            m = pool[a[0]]
            coll.setdefault(m.name, m)
        elif name == "clear":
            coll.clear()
        else:
            raise AssertionError(op)


def apply_op(w, op):
    if op[0] == "coll":
        return apply_coll(w, op)
    if op[0] == "setpar":  # child-side scalar
        c = w.C[op[1]]
        c.par = None if op[2] is None else w.P[op[2]]
    elif op[0] == "delpar":
        del w.C[op[1]].par
    elif op[0] == "setkid":  # one-to-one parent side
        p = w.P[op[1]]
        p.kids = None if op[2] is None else w.C[op[2]]
    elif op[0] == "delkid":
        del w.P[op[1]].kids
    else:
        raise AssertionError(op)


def _val(w, obj, attr):
    v = w._get(obj, attr)
    return None if v is MISSING else v


def op_allowed(w, op, allow_dups):
    """guards (see module docstring)."""
    if op[0] == "coll" and op[3] == "delattr" and w.persistent:
        return False  # `del persistent.collection`: semantics undocumented
    if w.fam == "scalar":
        # one-to-one: a backref does not extend to the *previous* holder of a stolen object
        # (pinned by test_backref_mutations.O2OScalarBackrefMoveTest): never steal
        if op[0] == "setkid" and op[2] is not None:
            cur = _val(w, w.C[op[2]], "par")
            return cur is None or cur is w.P[op[1]]
        if op[0] == "setpar" and op[2] is not None:
            cur = _val(w, w.P[op[2]], "kids")
            return cur is None or cur is w.C[op[1]]
        return True
    if w.fam == "dict" and op[0] == "setpar" and op[2] is not None:
        # same limitation through a keyed collection: a scalar set that displaces another
        # child stored under the same key does not un-parent the displaced child
        c = w.C[op[1]]
        coll = _val(w, w.P[op[2]], "kids")
        if coll is not None and c.name in coll and coll[c.name] is not c:
            return False
    if op[0] != "coll" or w.fam != "list":
        if w.fam == "list" and op[0] == "setpar" and w.dup_seen:
            # never move a currently duplicated child by scalar set
            c = w.C[op[1]]
            return all(sum(1 for k in w.kids(p) if k is c) <= 1 for p in w.P)
        return True
    _, side, hi, name = op[:4]
    obj, attr, pool = holder(w, side, hi)
    cur = current_members(w, side, hi)
    sim = simulate_list(cur, op, pool)
    if sim is None:
        return True  # raises on a plain list: state must simply stay consistent
    dup = len({id(x) for x in sim}) != len(sim)
    if dup and (w.m2m or not allow_dups):
        return False
    if not w.m2m:
        # a child duplicated in some list must not be moved into another parent's list
        incoming = [x for x in sim if not any(x is y for y in cur)]
        for x in incoming:
            for p in w.P:
                if sum(1 for k in w.kids(p) if k is x) > 1:
                    return False
    return True


# --------------------------------------------------------------------------
# alphabets
# --------------------------------------------------------------------------
def small_alphabet(kind):
    fam = fam_of(kind)
    m2m = kind.startswith("m2m")
    ops = []
    sides = [("P", 2, 2)] + ([("C", 2, 2)] if m2m else [])
    if fam == "scalar":
        for p in range(2):
            for c in (0, 1, None):
                ops.append(("setkid", p, c))
            ops.append(("delkid", p))
        for c in range(2):
            for p in (0, 1, None):
                ops.append(("setpar", c, p))
            ops.append(("delpar", c))
        return ops
    for side, nh, nm in sides:
        for h in range(nh):
            for m in range(nm):
                if fam == "list":
                    ops += [("coll", side, h, "append", m), ("coll", side, h, "remove", m),
                            ("coll", side, h, "setitem", 0, m)]
                elif fam == "set":
                    ops += [("coll", side, h, "add", m), ("coll", side, h, "discard", m)]
                else:
                    ops += [("coll", side, h, "setitem", m)]
            ops += [("coll", side, h, "delattr")]  # `del holder.collection` (>= 2 members after two adds)
            if fam == "list":
                ops += [("coll", side, h, "pop", -1), ("coll", side, h, "replace", []),
                        ("coll", side, h, "replace", [0]), ("coll", side, h, "replace", [1, 0])]
            elif fam == "set":
                ops += [("coll", side, h, "replace", []), ("coll", side, h, "replace", [1]),
                        ("coll", side, h, "ixor", [0, 1]), ("coll", side, h, "pop")]
            else:
                ops += [("coll", side, h, "delitem", "a"), ("coll", side, h, "pop_default", "b"),
                        ("coll", side, h, "replace", []), ("coll", side, h, "replace", [1, 0]),
                        ("coll", side, h, "update", [0, 1])]
    if not m2m:
        for c in range(2):
            for p in (0, 1, None):
                ops.append(("setpar", c, p))
            ops.append(("delpar", c))
    return ops


def random_op(w, rng):
    fam, m2m = w.fam, w.m2m
    np, nc = len(w.P), len(w.C)
    if fam == "scalar":
        r = rng.random()
        if r < 0.4:
            return ("setkid", rng.randrange(np), rng.choice([None] + list(range(nc))))
        if r < 0.8:
            return ("setpar", rng.randrange(nc), rng.choice([None] + list(range(np))))
        return ("delkid", rng.randrange(np)) if r < 0.9 else ("delpar", rng.randrange(nc))
    if not m2m and rng.random() < 0.25:
        if rng.random() < 0.85:
            return ("setpar", rng.randrange(nc), rng.choice([None] + list(range(np))))
        return ("delpar", rng.randrange(nc))
    side = "C" if m2m and rng.random() < 0.5 else "P"
    nh, nm = (np, nc) if side == "P" else (nc, np)
    h = rng.randrange(nh)
    cur = len(current_members(w, side, h))
    some = lambda: [rng.randrange(nm) for _ in range(rng.randint(0, 3))]
    uniq = lambda: rng.sample(range(nm), rng.randint(0, nm))
    if fam == "list":
        name = rng.choice(["append", "append", "remove", "insert", "pop", "setitem", "delitem", "setslice",
                           "delslice", "iadd", "extend", "replace", "clear", "delattr", "swap"])
        b = lambda: rng.choice([None, None] + list(range(-cur - 2, cur + 3)))
        if name in ("append", "remove"):
            return ("coll", side, h, name, rng.randrange(nm))
        if name == "insert":
            return ("coll", side, h, name, rng.randint(-cur - 1, cur + 1), rng.randrange(nm))
        if name in ("pop", "delitem"):
            return ("coll", side, h, name, rng.randint(-cur - 1, cur))
        if name == "setitem":
            return ("coll", side, h, name, rng.randint(-cur - 1, cur), rng.randrange(nm))
        if name == "setslice":
            step = rng.choice([None, None, 1, 2, 3, -1, -2])
            sl = [b(), b(), step]
            rhs = uniq()
            if step not in (None, 1) and rng.random() < 0.8:
                # extended slice: a right-hand side of exactly the slice's length
                rhs = (rhs + uniq() + [0, 1, 2])[: len(range(*slice(*sl).indices(cur)))]
            return ("coll", side, h, name, sl, rhs)
        if name == "delslice":
            return ("coll", side, h, name, [b(), b(), rng.choice([None, 1, 2, 3, -1, -2])])
        if name in ("iadd", "extend"):
            return ("coll", side, h, name, some())
        if name == "replace":
            return ("coll", side, h, name, some() if rng.random() < 0.3 else uniq())
        if name == "swap":
            if cur < 2:
                return ("coll", side, h, "append", rng.randrange(nm))
            i, j = rng.sample(range(cur), 2)
            return ("coll", side, h, name, i, j)
        return ("coll", side, h, name)
    if fam == "set":
        name = rng.choice(["add", "add", "discard", "remove", "pop", "clear", "update", "difference_update",
                           "intersection_update", "symmetric_difference_update", "ior", "isub", "iand", "ixor",
                           "replace", "delattr"])
        if name in ("add", "discard", "remove"):
            return ("coll", side, h, name, rng.randrange(nm))
        if name in ("pop", "clear", "delattr"):
            return ("coll", side, h, name)
        return ("coll", side, h, name, uniq())
    name = rng.choice(["setitem", "setitem", "delitem", "pop", "pop_default", "popitem", "update", "update_pairs",
                       "setdefault", "replace", "clear", "delattr"])
    if name in ("setitem", "setdefault"):
        return ("coll", side, h, name, rng.randrange(nm))
    if name in ("delitem", "pop", "pop_default"):
        return ("coll", side, h, name, rng.choice(["a", "b", "c"]))
    if name in ("update", "update_pairs", "replace"):
        us = uniq()
        # two members with the same key cannot both be in one dict
        seen, out = set(), []
        for k in us:
            if w.C[k].name not in seen:
                seen.add(w.C[k].name)
                out.append(k)
        return ("coll", side, h, name, out)
    return ("coll", side, h, name)


def in_simple_domain(w, op):
    from vf.gen.ormrig_gk import slice_in_simple_domain

    if op[0] == "coll" and op[3] == "setslice":
        n = len(current_members(w, op[1], op[2]))
        return slice_in_simple_domain(slice(*op[4]), n)
    return True


# --------------------------------------------------------------------------
class Env:
    def __init__(self, ctx):
        from vf.gen.ormrig_gk import c37_mapping, sqlite_engine

        self.ctx = ctx
        self.reg, self.classes = c37_mapping()
        self.eng = sqlite_engine()
        self.reg.metadata.create_all(self.eng)

    def dispose(self):
        self.eng.dispose()
        self.reg.dispose()


def opname(op):
    return (op[3] if op[0] == "coll" else op[0]).replace("_", "-")


def check_sides(env, w, trail, where):
    ctx = env.ctx
    ctx.count("biconditional_checks")
    ps, cs = w.parent_side(), w.child_side()
    if w.has_dups():
        w.dup_seen = True
    if ps == cs:
        return ps
    last = trail[-1] if trail else None
    if w.dup_seen:
        mech = "o2m-list-duplicate-members-backref"
    elif w.library_error and where == "memory":
        mech = "%s-%s-raises-%s" % (w.kind.replace("_", "-"), opname(last),
                                    "invalidrequest" if w.library_error == "invalidrequesterror" else w.library_error)
    else:
        mech = "%s-%s-sides-disagree" % (w.kind.replace("_", "-"), opname(last) if last else "initial")
        if where != "memory":
            mech = "%s-%s-sides-disagree" % (w.kind.replace("_", "-"), where)
    ctx.violation(
        mech,
        "%s after %s (%s): collection side says %s, other side says %s" % (
            w.kind, trail[-6:], where, sorted(ps), sorted(cs)),
        {"kind": w.kind, "sequence": trail, "where": where, "parent_side_pairs": sorted(ps),
         "child_side_pairs": sorted(cs), "only_parent_side": sorted(ps - cs), "only_child_side": sorted(cs - ps)},
    )
    return None


def flush_reload(env, w, sess, trail):
    """flush, expire everything, reload both sides, compare with memory."""
    ctx = env.ctx
    mem = w.parent_side()
    sess.add_all(w.P + w.C)
    sess.flush()
    sess.expire_all()
    w.persistent = True
    ctx.count("reload_checks")
    ps = check_sides(env, w, trail, "reload")
    if ps is None:
        return False
    if ps != mem:
        since = []
        for o in reversed(trail[:-1]):
            if o == list(PERSIST):
                break
            since.append(o)
        if w.dup_seen:
            # a member that is (or was) present twice: removing one occurrence fires a
            # remove event that clears its has-parent flag although it is still a member
            mech = "o2m-list-duplicate-members-lost-on-flush"
        elif any(o[0] == "coll" and (o[3] == "swap" or (o[3] == "setslice" and o[4][2] not in (None, 1)))
                 for o in since):
            # (an extended-slice assignment that permutes current members is the same
            # index-by-index assignment as a swap)
            # item-by-item permutation: a member is appended at its new index before it
            # is removed from the old one, which leaves its has-parent flag cleared
            mech = "%s-swap-member-lost-on-flush" % w.kind.replace("_", "-")
        else:
            mech = "%s-reload-differs-from-memory" % w.kind.replace("_", "-")
        ctx.violation(mech, "%s after %s: pairs in memory before flush %s, after flush+reload %s" % (
            w.kind, trail[-6:], sorted(mem), sorted(ps)),
            {"kind": w.kind, "sequence": trail, "memory": sorted(mem), "reloaded": sorted(ps)})
        return False
    return True


PERSIST = ("persist",)


def slice_grid(quick):
    vals = (None, -4, -3, -2, -1, 0, 1, 2, 3, 4)
    steps = (None, 1, 2, 3, -1, -2) if quick else (None, 1, 2, 3, 4, -1, -2, -3)
    for st in vals:
        for sp in vals:
            for step in steps:
                yield [st, sp, step]


def slice_class_part(env, ctx, idx0):
    """input class "list mutators with extended slices": every list collection (one-to-many,
    both sides of many-to-many) holding 0..n members gets every slice deletion and slice
    assignment of the grid start/stop in {None,-4..4} x step in {None,1,2,3,-1,-2}
    (negative, out-of-range and empty slices included); the two sides are compared after
    the operation and, for a sample, after flush + reload."""
    idx = idx0
    for kind in ("o2m_list", "m2m_list"):
        sides = [("P", 3)] + ([("C", 2)] if kind == "m2m_list" else [])
        for side, pool in sides:
            for n in range(0, pool + 1):
                members = list(range(n))
                rest = [k for k in range(pool) if k >= n]
                for sl in slice_grid(ctx.quick):
                    idx += 1
                    if not ctx.mine(idx):
                        continue
                    persist = [PERSIST] if (idx // ctx.nshards) % 9 == 0 else []
                    ctx.count("slice_class_cases")
                    run_sequence(env, kind, [("coll", side, 0, "replace", members),
                                             ("coll", side, 0, "delslice", sl)] + persist)
                    # assignment: the non-members as right-hand side (0, 1 or all of them, and
                    # exactly as many as the slice selects); then delete the same slice again
                    k = len(range(*slice(*sl).indices(n)))
                    variants = ([], rest[:1], rest, (rest + members)[:k])
                    if ctx.quick:
                        variants = (rest[:1], (rest + members)[:k]) if (idx // ctx.nshards) % 2 else ([], rest)
                    for rhs in variants:
                        run_sequence(env, kind, [("coll", side, 0, "replace", members),
                                                 ("coll", side, 0, "setslice", sl, list(rhs)),
                                                 ("coll", side, 0, "delslice", sl)] + persist)
    return idx


# --------------------------------------------------------------------------
# backref mutations queued against unloaded collections
# --------------------------------------------------------------------------
def other_side_ops(w, nc):
    """every attach / detach expressed on the side opposite to the collection under test"""
    ops = []
    for j in range(nc):
        for i in range(len(w.P)):
            if w.m2m:
                ops.append(("coll", "C", j, "add" if w.fam == "set" else "append", i))
                ops.append(("coll", "C", j, "discard" if w.fam == "set" else "remove", i))
            else:
                ops.append(("setpar", j, i))
        if not w.m2m:
            ops.append(("setpar", j, None))
    return ops


def queued_case(env, kind, init_pairs, ops, arrival, load_mid=None, nc=2):
    """The collections on the parent side are NOT loaded (objects fetched anew, or expired)
    and autoflush is off; ``ops`` mutate the relationship through the other side, so the
    backrefs are queued against the unloaded collections.  Then the collections are loaded:
    both sides must agree (with what the program did on the loaded side), and flush +
    expire + reload must keep exactly those pairs."""
    from sqlalchemy import orm

    ctx = env.ctx
    w = World(env, kind, nc=nc)
    if w.fam == "dict":
        for j, c in enumerate(w.C):
            c.name = "k%d" % j  # distinct keys: no same-key displacement in this part
    P, C = env.classes[kind]
    trail = [["init", sorted(init_pairs)], ["arrival", arrival]]
    sess = orm.Session(env.eng, autoflush=False)
    try:
        for i, j in sorted(init_pairs):
            if w.fam == "dict":
                w.P[i].kids[w.C[j].name] = w.C[j]
            elif w.fam == "set":
                w.P[i].kids.add(w.C[j])
            else:
                w.P[i].kids.append(w.C[j])
        sess.add_all(w.P + w.C)
        sess.flush()
        pids, cids = [p.id for p in w.P], [c.id for c in w.C]
        if arrival == "fresh":
            sess.expunge_all()
            w.C = [sess.get(C, k) for k in cids]
            w.P = [sess.get(P, k) for k in pids]
            w.pidx = {id(o): i for i, o in enumerate(w.P)}
            w.cidx = {id(o): i for i, o in enumerate(w.C)}
        else:
            sess.expire_all()
        w.persistent = True
        for c in w.C:  # the side the program works on is loaded
            getattr(c, "pars" if w.m2m else "par")
        for p in w.P:
            p.name
            assert "kids" not in p.__dict__
        for n, op in enumerate(ops):
            if load_mid is not None and n == load_mid[0]:
                trail.append(["load", load_mid[1]])
                w.P[load_mid[1]].kids
            if not op_allowed(w, op, False):
                continue
            trail.append(list(op))
            ctx.count("queued_ops")
            try:
                apply_op(w, op)
            except EXPECTED_ERRORS:
                ctx.count("failed_ops")
        expected = w.child_side()  # what the program did, read from the loaded side
        trail.append(["load-all"])
        ctx.count("queued_load_checks")
        ps = w.parent_side()  # loads the collections: the queued backrefs are replayed
        mech = None
        if ps != expected or w.child_side() != expected:
            mech = "%s-queued-backref-sides-disagree-after-load" % kind.replace("_", "-")
            detail = "collection side %s, other side %s" % (sorted(ps), sorted(expected))
        else:
            sess.flush()
            sess.expire_all()
            ctx.count("reload_checks")
            ps2, cs2 = w.parent_side(), w.child_side()
            if ps2 != expected or cs2 != expected:
                mech = "%s-queued-backref-lost-on-flush" % kind.replace("_", "-")
                detail = "before flush %s, after flush+reload collection side %s, other side %s" % (
                    sorted(expected), sorted(ps2), sorted(cs2))
        if mech:
            ctx.violation(mech, "%s %s: %s" % (kind, trail, detail),
                          {"kind": kind, "sequence": trail, "expected": sorted(expected), "detail": detail})
        ctx.case({"k": kind, "queued": trail}, nontrivial=len(trail) >= 5)
    finally:
        sess.rollback()
        sess.close()


def queued_part(env, ctx, rng):
    import itertools as it

    idx = 0
    maxlen = 3
    for kind in ("o2m_list", "o2m_set", "o2m_dict", "m2m_list", "m2m_set"):
        w0 = World(env, kind, nc=2)
        alpha = other_side_ops(w0, 2)
        inits = [set(), {(0, 0)}, {(0, 0), (0, 1)}, {(0, 0), (1, 1)}]
        if kind.startswith("m2m"):
            inits.append({(0, 0), (1, 0), (0, 1)})
        for L in range(1, maxlen + 1):
            for seq in it.product(alpha, repeat=L):
                for k, init in enumerate(inits):
                    for arrival in ("fresh", "expired"):
                        idx += 1
                        if not ctx.mine(idx):
                            continue
                        if ctx.quick and L == maxlen and (idx // ctx.nshards) % 3:
                            continue  # quick: a third of the longest sequences
                        queued_case(env, kind, init, list(seq), arrival)
    ctx.count("queued_exhaustive_done")
    # random: three children, longer sequences, one collection loaded midway
    nrand = ctx.pick({"quick": 40, "thorough": 1500})
    kinds = ("o2m_list", "o2m_set", "o2m_dict", "m2m_list", "m2m_set")
    for k in range(nrand):
        if not ctx.budget_ok():
            break
        kind = kinds[k % len(kinds)]
        w0 = World(env, kind, nc=3)
        alpha = other_side_ops(w0, 3)
        init = {(rng.randrange(2), j) for j in range(3) if rng.random() < 0.6}
        if not kind.startswith("m2m"):
            init = {(i, j) for i, j in init}  # one parent per child by construction
        ops = [rng.choice(alpha) for _ in range(rng.randint(2, 8))]
        mid = (rng.randrange(len(ops)), rng.randrange(2)) if rng.random() < 0.4 else None
        queued_case(env, kind, init, ops, rng.choice(["fresh", "expired"]), load_mid=mid, nc=3)


def run_sequence(env, kind, ops, allow_dups=False, nc=3, verbose=False):
    """ops: op tuples, callables(w) -> op (random choice made against the live world), or
    the marker PERSIST (= add everything to a session, flush, expire_all, reload, compare;
    later operations run on the persistent, loaded objects).  A sequence containing a
    PERSIST marker is flushed + reloaded once more at its end."""
    from sqlalchemy import exc as sa_exc
    from sqlalchemy import orm

    ctx = env.ctx
    w = World(env, kind, nc=nc)
    trail = []
    sess = None
    ok = True
    prev = set()
    try:
        for op in ops:
            if op == PERSIST or (isinstance(op, list) and tuple(op) == PERSIST):
                if sess is None:
                    sess = orm.Session(env.eng)
                trail.append(list(PERSIST))
                ok = flush_reload(env, w, sess, trail)
                if not ok:
                    break
                continue
            if callable(op):
                for _ in range(20):
                    cand = op(w)
                    if op_allowed(w, cand, allow_dups):
                        op = cand
                        break
                else:
                    continue
            elif not op_allowed(w, op, allow_dups):
                continue
            trail.append(list(op))
            ctx.count("seq_steps")
            if w.persistent:
                ctx.count("persistent_steps")
            try:
                apply_op(w, op)
            except EXPECTED_ERRORS as e:
                ctx.count("failed_ops")
                if verbose:
                    print("   raised", type(e).__name__, e)
            except (sa_exc.InvalidRequestError, RuntimeError) as e:
                # not an outcome a plain collection could produce; the state is judged
                # below like after any other failed operation
                ctx.count("failed_ops")
                ctx.count("library_errors")
                ctx.seen("library_errors", "%s:%s" % (kind, str(e)[:60]))
                w.library_error = type(e).__name__.lower()
            ps = check_sides(env, w, trail, "memory")
            w.library_error = False
            if verbose:
                print(list(op), "->", sorted(ps) if ps is not None else "DISAGREE")
            if ps is None:
                ok = False
                break
            if ps != prev:
                w.changes += 1
                ctx.count("pair_changes")
                prev = ps
        if ok and sess is not None:
            trail.append(list(PERSIST))
            flush_reload(env, w, sess, trail)
    finally:
        if sess is not None:
            sess.rollback()
            sess.close()
    ctx.case({"k": kind, "seq": trail}, nontrivial=w.changes >= 2)
    return ok


def run(ctx):
    import warnings

    from sqlalchemy import exc as sa_exc
    from vf.gen.ormrig_gk import C37_KINDS

    warnings.simplefilter("ignore", sa_exc.SAWarning)
    env = Env(ctx)
    rng = ctx.rng
    idx = 0
    maxlen = ctx.pick({"quick": 3, "thorough": 4})
    # ---- exhaustive short sequences (in memory; every 50th also flushed + reloaded)
    for kind in C37_KINDS:
        alpha = small_alphabet(kind)
        ctx.seen("alphabet_sizes", "%s:%d" % (kind, len(alpha)))
        for L in range(1, maxlen + 1):
            if L == 4 and len(alpha) > 24:
                alpha_l = alpha[:24]
            else:
                alpha_l = alpha
            for seq in itertools.product(alpha_l, repeat=L):
                idx += 1
                if not ctx.mine(idx):
                    continue
                if L == maxlen and not ctx.budget_ok():
                    break
                n = idx // ctx.nshards
                run_sequence(env, kind, list(seq) + ([PERSIST] if n % 50 == 0 else []), nc=2)
                if n in (7, 7001):
                    ctx.sample({"kind": kind, "sequence": [list(o) for o in seq]})
    ctx.count("exhaustive_done")
    slice_class_part(env, ctx, idx)
    queued_part(env, ctx, rng)
    # ---- targeted: move two children to another parent, then swap them by item
    # assignment, all in one flush.  Which of the two parents the unit of work processes
    # first depends on object addresses, so the scenario is repeated with fresh objects.
    # ---- targeted: `del holder.collection` with 2 and 3 members, every collection kind,
    # both sides of many-to-many, followed by flush + reload
    for kind in C37_KINDS:
        if kind == "o2o" or not ctx.mine(C37_KINDS.index(kind)):
            continue
        sides = ["P", "C"] if kind.startswith("m2m") else ["P"]
        for side in sides:
            for members in ([0, 1], [0, 1, 2] if side == "P" else [1, 0]):
                if fam_of(kind) == "dict":
                    members = [m for m in members if m != 2]  # c0 and c2 share a key
                run_sequence(env, kind, [("coll", side, 0, "replace", members), ("coll", side, 0, "delattr"), PERSIST])
                run_sequence(env, kind, [("coll", side, 1, "replace", members), ("coll", side, 0, "replace", members[:1]),
                                         ("coll", side, 1, "delattr"), ("coll", side, 0, "delattr"), PERSIST])
    for rep in range(ctx.pick({"quick": 8, "thorough": 40})):
        run_sequence(env, "o2m_list", [("coll", "P", 1, "replace", [0, 1, 2]), PERSIST, ("setpar", 2, 0),
                                       ("coll", "P", 0, "append", 0), ("coll", "P", 0, "swap", 1, 0)])
        run_sequence(env, "m2m_list", [("coll", "P", 1, "replace", [0, 1, 2]), PERSIST,
                                       ("coll", "P", 1, "swap", 2, 0), ("coll", "C", 0, "append", 0)])
    # ---- random long sequences, always flushed/reloaded midway and at the end
    nseq = ctx.pick({"quick": 220, "thorough": 6000})
    for k in range(nseq):
        if not ctx.budget_ok():
            break
        kind = C37_KINDS[k % len(C37_KINDS)]
        L = rng.randint(6, 20)
        gen = lambda w: random_op(w, rng)
        ops = [gen] * L
        ops.insert(rng.randint(0, L - 1), PERSIST)
        run_sequence(env, kind, ops, allow_dups=(kind == "o2m_list" and k % 12 == 6))
    env.dispose()
