"""C38 -- instrumented collections behave exactly like the Python types they wrap.

Runtime differential: every operation is applied in lock-step to a live relationship
collection (InstrumentedList / a user list subclass / InstrumentedSet / a user set
subclass / attribute_keyed_dict / keyfunc_mapping, owned by a freshly created mapped
parent, children freshly created per case) and to the plain ``list`` / ``set`` /
``dict`` holding the same objects.  Judged: exception *type*, return value (identity
of members, ``is self`` for in-place operators), contents after the operation (also
after a raised exception), and event conservation
``initial + append events - remove events == final`` as multisets of object ids,
observed through the public ``append`` / ``remove`` attribute events.

Exhaustive part: list sizes 0..3 (quick) / 0..4 (thorough) x every slice with
start, stop, step in {None, -6..6} for get / del / set (right-hand side of 0..3 fresh
members); every index -6..6 for [] get/set/del, insert, pop; all other list methods;
all set methods and operators with set / frozenset / list-with-duplicate / iterator /
self / other-instrumented-set arguments over all subsets; all dict methods, including
``pop`` / ``setdefault`` whose default is itself a member (the very object stored under
the key, or one stored under another key).  Random
part: seeded operation sequences on one collection, judged after every step.

Guards (behaviour that is by design or unspecified, so not demanded):
* ``list *= n`` is deliberately not instrumented (comment in _list_decorators): contents
  are compared, event conservation is not demanded for it.
* ``coll[a:b] = coll`` returns early by design (``if value is self: return``); only the
  full-slice form ``coll[:] = coll`` (where list also leaves the contents unchanged) is
  generated.
* ``None`` is not a member value: ``dict.setdefault(k)`` / ``update`` with None values
  are not generated.
* the bulk set methods are called with exactly one argument (the instrumented
  signatures do not take ``*others``); noted in the report, not judged.
* which element ``set.pop()`` returns is unspecified: only membership is judged.
* attribute replacement (``parent.items = [...]``) is C37's subject; here it only
  builds the initial state.

Mechanisms: ``list-slice-setitem-bounds`` is reserved for slice assignment whose step is
<= 0 or whose bounds lie outside [-len, len] (the hand-computed bounds of DESIGN
section 6; fixed in /repo by b7b3380, reverse diff kept in selftest/C38); a right-hand
side that is not iterable / not sized is labelled by that shape first (it fails the same
way whatever the bounds); everything else is ``<family>-<op>-<aspect>``.

Still firing on the live tree (candidate defects, see the report): ``dict-ior-bypasses-
events`` (``coll |= {...}`` goes straight to dict.__ior__: no events, nothing persisted),
``set-difference-update-self``, ``list-remove-absent-fires-remove-event``,
``list-extended-slice-setitem-needs-sized-rhs``, ``list-slice-setitem-mutates-before-
typeerror``.
"""
from __future__ import annotations

import operator

META = {
    "id": "C38",
    "level": "exploration",
    "technique": "lock-step differential of live instrumented collections against builtin list/set/dict + append/remove event conservation",
    "level_text": "Exhaustive over list size 0..3 (quick) / 0..4 (thorough) x all 2744 slices with start/stop/step in {None,-6..6} for get/set/del with right-hand sides of 0..3 members, all indices -6..6, all list/set/dict methods and in-place operators with every argument shape; plus seeded random operation sequences judged after every step.",
    "level_note": "Transient (session-less) parents: the collection machinery is identical for persistent objects, loader interaction is C40/C46. Multi-argument forms of set.update & co. are not generated. `list *= n` events and `coll[a:b] = coll` are excluded by design (see module docstring).",
    "design_ref": "DESIGN.md section 4, C38",
    "rule": "case = (collection flavour, initial size, operation spec); non-trivial = the reference operation changed the contents, returned a non-None value, or raised",
    "shards": {"quick": 8, "thorough": 16},
    "soft_s": {"quick": 60, "thorough": 900},
    "exhaustive": {"quick": True, "thorough": True},
    "require": ["list_slice_set_cases", "list_cases", "set_cases", "dict_cases", "append_events", "remove_events", "conservation_checks", "seq_steps"],
    "assumptions": ["builtin list/set/dict of CPython 3.12 are the reference"],
}

ABSENT = object()


# --------------------------------------------------------------------------
# result comparison
# --------------------------------------------------------------------------
def same(a, b, coll, model):
    if a is coll or b is model:
        return a is coll and b is model
    if isinstance(a, (list, tuple)) and isinstance(b, (list, tuple)):
        return (
            isinstance(a, tuple) == isinstance(b, tuple)
            and len(a) == len(b)
            and all(same(x, y, coll, model) for x, y in zip(a, b))
        )
    if isinstance(a, (set, frozenset)) and isinstance(b, (set, frozenset)):
        return {id(x) for x in a} == {id(x) for x in b}
    if isinstance(a, dict) and isinstance(b, dict):
        return list(a.keys()) == list(b.keys()) and all(a[k] is b[k] for k in a)
    if isinstance(a, (bool, int, str)) or isinstance(b, (bool, int, str)):
        return type(a) is type(b) and a == b
    return a is b


def contents_same(kind, coll, model):
    if kind == "list":
        return len(coll) == len(model) and all(x is y for x, y in zip(coll, model))
    if kind == "set":
        return {id(x) for x in coll} == {id(x) for x in model} and len(coll) == len(model)
    return list(coll.keys()) == list(model.keys()) and all(coll[k] is model[k] for k in model)


def member_ids(kind, c):
    if kind == "dict":
        return [id(v) for v in c.values()]
    return [id(v) for v in c]


def names(kind, c):
    try:
        if kind == "dict":
            return {k: getattr(v, "name", repr(v)) for k, v in c.items()}
        return [getattr(v, "name", repr(v)) for v in c]
    except Exception as e:  # pragma: no cover
        return "unprintable:%r" % e


# --------------------------------------------------------------------------
# list operations
# --------------------------------------------------------------------------
def list_rhs(rkind, items):
    if rkind == "list":
        return lambda t: items
    if rkind == "tuple":
        tup = tuple(items)
        return lambda t: tup
    if rkind == "iter":
        return lambda t: iter(items)
    if rkind == "gen":
        return lambda t: (x for x in items)
    if rkind == "self":
        return lambda t: t
    if rkind == "nonit":
        return lambda t: 5
    raise AssertionError(rkind)


def list_materialize(spec, cur, mk):
    """spec -> dict of concrete arguments; ``cur`` = current reference contents."""
    op = spec[0]
    a = {}
    if op in ("getslice", "delslice"):
        a["s"] = slice(*spec[1])
    elif op == "setslice":
        a["s"] = slice(*spec[1])
        a["rhs"] = list_rhs(spec[3], [mk() for _ in range(spec[2])])
    elif op == "setslice_members":
        # right-hand side reuses current members (a permutation of the replaced run)
        a["s"] = slice(*spec[1])
        run = cur[a["s"]]
        a["rhs"] = list_rhs("list", list(reversed(run)))
    elif op in ("getitem", "delitem", "pop"):
        a["i"] = spec[1]
    elif op == "setitem":
        a["i"] = spec[1]
        if spec[2] == "same" and -len(cur) <= spec[1] < len(cur):
            a["x"] = cur[spec[1]]
        else:
            a["x"] = mk()
    elif op == "insert":
        a["i"] = spec[1]
        a["x"] = mk()
    elif op == "append":
        a["x"] = mk()
    elif op in ("extend", "iadd", "add"):
        a["rhs"] = list_rhs(spec[2], [mk() for _ in range(spec[1])])
    elif op in ("imul", "mul"):
        a["k"] = spec[1]
    elif op in ("remove", "count", "index", "contains"):
        j = spec[1]
        a["x"] = cur[j] if 0 <= j < len(cur) else mk()
    elif op == "sort":
        a["rev"] = spec[1]
    return a


def list_apply(op, t, a):
    if op == "getslice":
        return t[a["s"]]
    if op == "delslice":
        del t[a["s"]]
        return None
    if op in ("setslice", "setslice_members"):
        t[a["s"]] = a["rhs"](t)
        return None
    if op == "getitem":
        return t[a["i"]]
    if op == "setitem":
        t[a["i"]] = a["x"]
        return None
    if op == "delitem":
        del t[a["i"]]
        return None
    if op == "insert":
        return t.insert(a["i"], a["x"])
    if op == "pop":
        return t.pop(a["i"])
    if op == "pop0":
        return t.pop()
    if op == "append":
        return t.append(a["x"])
    if op == "extend":
        return t.extend(a["rhs"](t))
    if op == "iadd":
        return operator.iadd(t, a["rhs"](t))
    if op == "add":
        return t + a["rhs"](t)
    if op == "imul":
        return operator.imul(t, a["k"])
    if op == "mul":
        return t * a["k"]
    if op == "remove":
        return t.remove(a["x"])
    if op == "reverse":
        return t.reverse()
    if op == "sort":
        return t.sort(key=lambda c: c.name, reverse=a["rev"])
    if op == "clear":
        return t.clear()
    if op == "copy":
        return t.copy()
    if op == "count":
        return t.count(a["x"])
    if op == "index":
        return t.index(a["x"])
    if op == "contains":
        return a["x"] in t
    if op == "len":
        return len(t)
    if op == "iter":
        return list(iter(t))
    if op == "reversed":
        return list(reversed(t))
    if op == "eq":
        return t == list(t)
    raise AssertionError(op)


def list_specs_slices():
    from vf.gen.ormrig_gk import all_slices, slice_desc

    for s in all_slices():
        d = slice_desc(s)
        yield ("getslice", d)
        yield ("delslice", d)
        for r in range(4):
            yield ("setslice", d, r, "list")


def list_specs_other():
    rng6 = range(-6, 7)
    for i in rng6:
        yield ("getitem", i)
        yield ("setitem", i, "fresh")
        yield ("setitem", i, "same")
        yield ("delitem", i)
        yield ("insert", i)
        yield ("pop", i)
    yield ("pop0",)
    yield ("append",)
    for r in range(4):
        for rk in ("list", "tuple", "iter", "gen"):
            yield ("extend", r, rk)
            yield ("iadd", r, rk)
        yield ("add", r, "list")
    for op in ("extend", "iadd"):
        yield (op, 0, "self")
        yield (op, 0, "nonit")
    yield ("add", 0, "tuple")  # list + tuple -> TypeError
    for k in range(-1, 4):
        yield ("imul", k)
        yield ("mul", k)
    for j in range(-1, 5):
        yield ("remove", j)
        yield ("count", j)
        yield ("index", j)
        yield ("contains", j)
    yield ("reverse",)
    yield ("sort", False)
    yield ("sort", True)
    for op in ("clear", "copy", "len", "iter", "reversed", "eq"):
        yield (op,)
    # slice assignment with other right-hand-side shapes, in-range slices only
    vals = (None, -2, -1, 0, 1, 2, 3)
    for st in vals:
        for sp in vals:
            for step in (None, 1, 2, 3):
                for r in range(4):
                    for rk in ("tuple", "iter", "gen"):
                        yield ("setslice", [st, sp, step], r, rk)
                yield ("setslice", [st, sp, step], 0, "nonit")
                yield ("setslice_members", [st, sp, step])
    yield ("setslice", [None, None, None], 0, "self")
    yield ("setslice", [None, None, 1], 0, "self")


LIST_MUTATORS = {"delslice", "setslice", "setslice_members", "setitem", "delitem", "insert", "pop", "pop0",
                 "append", "extend", "iadd", "imul", "remove", "reverse", "sort", "clear"}


def list_hint(spec, n):
    from vf.gen.ormrig_gk import slice_in_simple_domain

    op = spec[0]
    if op == "setslice_members" and not slice_in_simple_domain(slice(*spec[1]), n):
        return "list-slice-setitem-bounds"
    if op == "setslice":
        s = slice(*spec[1])
        rk = spec[3]
        # the shape of the right-hand side decides first: these two fail the same way
        # whatever the bounds are
        if rk == "nonit":
            return "list-slice-setitem-mutates-before-typeerror"
        if rk in ("iter", "gen") and s.step not in (None, 1, 0):
            return "list-extended-slice-setitem-needs-sized-rhs"
        if not slice_in_simple_domain(s, n):
            return "list-slice-setitem-bounds"
    if op == "remove" and not (0 <= spec[1] < n):
        return "list-remove-absent-fires-remove-event"
    return None


# --------------------------------------------------------------------------
# set operations
# --------------------------------------------------------------------------
SET_BULK_METHODS = ("update", "difference_update", "intersection_update", "symmetric_difference_update")
SET_IOPS = {"ior": operator.ior, "isub": operator.isub, "iand": operator.iand, "ixor": operator.ixor}
SET_PURE_METHODS = ("union", "intersection", "difference", "symmetric_difference", "issubset", "issuperset", "isdisjoint")
SET_BINOPS = {"or": operator.or_, "and": operator.and_, "sub": operator.sub, "xor": operator.xor,
              "le": operator.le, "lt": operator.lt, "ge": operator.ge, "gt": operator.gt, "eq": operator.eq,
              "ne": operator.ne}
SET_ARG_KINDS = ("set", "frozenset", "list", "iter", "self", "coll")


def set_specs(n):
    # single element
    for j in range(-1, n):
        yield ("add", j)
        yield ("discard", j)
        yield ("remove", j)
        yield ("contains", j)
    yield ("pop",)
    yield ("clear",)
    yield ("copy",)
    yield ("len",)
    for mask in range(1 << n):
        for nf in range(3):
            for ak in SET_ARG_KINDS:
                if ak == "self" and (mask or nf):
                    continue
                for m in SET_BULK_METHODS + SET_PURE_METHODS:
                    yield ("m:" + m, mask, nf, ak)
                for o in list(SET_IOPS) + list(SET_BINOPS):
                    yield ("o:" + o, mask, nf, ak)


def set_materialize(spec, cur_list, mk, other_coll_factory):
    op = spec[0]
    a = {}
    if op in ("add", "discard", "remove", "contains"):
        j = spec[1]
        a["x"] = cur_list[j] if 0 <= j < len(cur_list) else mk()
    elif op[:2] in ("m:", "o:"):
        _, mask, nf, ak = spec
        items = [c for k, c in enumerate(cur_list) if mask >> k & 1] + [mk() for _ in range(nf)]
        if ak == "set":
            v = set(items)
            a["arg"] = lambda t: v
        elif ak == "frozenset":
            v = frozenset(items)
            a["arg"] = lambda t: v
        elif ak == "list":
            v = items + items[:1]
            a["arg"] = lambda t: v
        elif ak == "iter":
            a["arg"] = lambda t: iter(items)
        elif ak == "self":
            a["arg"] = lambda t: t
        elif ak == "coll":
            oc = other_coll_factory(items)
            a["arg"] = lambda t: oc
            a["keep"] = oc
    return a


def set_apply(op, t, a):
    if op == "add":
        return t.add(a["x"])
    if op == "discard":
        return t.discard(a["x"])
    if op == "remove":
        return t.remove(a["x"])
    if op == "contains":
        return a["x"] in t
    if op == "pop":
        return t.pop()
    if op == "clear":
        return t.clear()
    if op == "copy":
        return t.copy()
    if op == "len":
        return len(t)
    if op.startswith("m:"):
        return getattr(t, op[2:])(a["arg"](t))
    if op.startswith("o:"):
        f = SET_IOPS.get(op[2:]) or SET_BINOPS[op[2:]]
        return f(t, a["arg"](t))
    raise AssertionError(op)


def set_hint(spec):
    if spec[0] in ("m:difference_update", "o:isub") and spec[3] == "self":
        return "set-difference-update-self"
    return None


def set_is_mutator(op):
    return op in ("add", "discard", "remove", "pop", "clear") or op[2:] in SET_BULK_METHODS or op[2:] in SET_IOPS


# --------------------------------------------------------------------------
# dict operations
# --------------------------------------------------------------------------
KEYS = ("a", "b", "c", "d", "e")


def dict_specs(n):
    for ki in range(0, n + 1):  # index n == a key not present
        for vk in ("fresh", "fresh_mismatch", "same"):
            yield ("setitem", ki, vk)
            yield ("setdefault", ki, vk)
        yield ("delitem", ki)
        yield ("pop", ki)
        yield ("pop_default", ki)
        yield ("pop_none", ki)
        # defaults that are themselves members: the value stored under that very key,
        # a value stored under another key, a fresh object equal to nothing
        yield ("pop_stored", ki)
        yield ("pop_member", ki)
        yield ("setdefault_member", ki)
        yield ("get", ki)
        yield ("contains", ki)
    for op in ("popitem", "clear", "copy", "keys", "values", "items", "len", "eq", "update_none"):
        yield (op,)
    for mask in range(1 << n):
        for nf in range(3):
            for same_vals in (False, True):
                if same_vals and not mask:
                    continue
                for form in ("dict", "pairs", "pairs_iter", "kw", "dict_kw", "ior", "ior_pairs", "or"):
                    yield ("u:" + form, mask, nf, same_vals)


def dict_materialize(spec, cur, mk):
    op = spec[0]
    a = {}
    keys = list(cur.keys())

    def key_of(ki):
        return keys[ki] if ki < len(keys) else next(k for k in KEYS if k not in cur)

    if op in ("setitem", "setdefault"):
        k = key_of(spec[1])
        a["k"] = k
        if spec[2] == "same" and k in cur:
            a["v"] = cur[k]
        elif spec[2] == "fresh_mismatch":
            a["v"] = mk("zz")
        else:
            a["v"] = mk(k)
    elif op in ("delitem", "pop", "pop_default", "pop_none", "get", "contains"):
        a["k"] = key_of(spec[1])
        a["default"] = ABSENT
    elif op in ("pop_stored", "pop_member", "setdefault_member"):
        k = key_of(spec[1])
        a["k"] = k
        others = [v for kk, v in cur.items() if kk != k]
        if op == "pop_stored":
            a["default"] = cur[k] if k in cur else mk(k)
        else:
            a["default"] = others[0] if others else (cur[k] if k in cur else mk(k))
    elif op.startswith("u:"):
        _, mask, nf, same_vals = spec
        d = {}
        for i, k in enumerate(keys):
            if mask >> i & 1:
                d[k] = cur[k] if same_vals else mk(k)
        free = [k for k in KEYS if k not in cur]
        for k in free[:nf]:
            d[k] = mk(k)
        a["d"] = d
    return a


def dict_apply(op, t, a):
    if op == "setitem":
        t[a["k"]] = a["v"]
        return None
    if op == "setdefault":
        return t.setdefault(a["k"], a["v"])
    if op == "delitem":
        del t[a["k"]]
        return None
    if op == "pop":
        return t.pop(a["k"])
    if op in ("pop_default", "pop_stored", "pop_member"):
        return t.pop(a["k"], a["default"])
    if op == "setdefault_member":
        return t.setdefault(a["k"], a["default"])
    if op == "pop_none":
        return t.pop(a["k"], None)
    if op == "get":
        return t.get(a["k"])
    if op == "contains":
        return a["k"] in t
    if op == "popitem":
        return t.popitem()
    if op == "clear":
        return t.clear()
    if op == "copy":
        return t.copy()
    if op == "keys":
        return list(t.keys())
    if op == "values":
        return list(t.values())
    if op == "items":
        return list(t.items())
    if op == "len":
        return len(t)
    if op == "eq":
        return t == dict(t)
    if op == "update_none":
        return t.update()
    if op.startswith("u:"):
        form = op[2:]
        d = a["d"]
        if form == "dict":
            return t.update(d)
        if form == "pairs":
            return t.update(list(d.items()))
        if form == "pairs_iter":
            return t.update(iter(list(d.items())))
        if form == "kw":
            return t.update(**d)
        if form == "dict_kw":
            ks = list(d)
            half = len(ks) // 2
            return t.update({k: d[k] for k in ks[:half]}, **{k: d[k] for k in ks[half:]})
        if form == "ior":
            return operator.ior(t, d)
        if form == "ior_pairs":
            return operator.ior(t, list(d.items()))
        if form == "or":
            return t | d
    raise AssertionError(op)


def dict_hint(spec):
    if spec[0] in ("u:ior", "u:ior_pairs"):
        return "dict-ior-bypasses-events"
    return None


def dict_is_mutator(op):
    return op in ("setitem", "setdefault", "delitem", "pop", "pop_default", "pop_none", "popitem", "clear",
                  "pop_stored", "pop_member", "setdefault_member",
                  "update_none") or (op.startswith("u:") and op != "u:or")


# --------------------------------------------------------------------------
# the judge
# --------------------------------------------------------------------------
class Env:
    def __init__(self, ctx):
        from vf.gen.ormrig_gk import c38_mapping

        self.ctx = ctx
        self.reg, self.classes, self.recs = c38_mapping()
        self.serial = 0

    def dispose(self):
        self.reg.dispose()

    def fresh(self, kind, n):
        """fresh parent + n fresh children installed as the collection."""
        P, C = self.classes[kind]
        fam = family(kind)

        def mk(name=None):
            self.serial += 1
            return C(name=name if name is not None else "x%d" % self.serial)

        p = P()
        if fam == "dict":
            kids = [mk(KEYS[i]) for i in range(n)]
            p.items = {c.name: c for c in kids}
            model = {c.name: c for c in kids}
        elif fam == "set":
            kids = [mk("k%d" % i) for i in range(n)]
            p.items = set(kids)
            model = set(kids)
        else:
            kids = [mk("k%d" % i) for i in range(n)]
            p.items = list(kids)
            model = list(kids)
        return p, p.items, model, kids, mk


def family(kind):
    return {"list": "list", "mylist": "list", "set": "set", "myset": "set", "akd": "dict", "kfd": "dict"}[kind]


def call(f, *a):
    try:
        return f(*a), None
    except Exception as e:  # the differential compares exception types
        return None, e


def judge_step(env, kind, n, spec, coll, model, rec, init_ids, apply, a, hint, conserve, mutator, seqinfo=None):
    """apply one op to both sides and judge; returns True if consistent."""
    ctx = env.ctx
    fam = family(kind)
    op = spec[0]
    before = names(fam, model)
    rm, em = call(apply, op, model, a)
    rc, ec = call(apply, op, coll, a)
    aspect = None
    detail = ""
    if (em is None) != (ec is None) or (em is not None and type(em) is not type(ec)):
        aspect = "exception"
        detail = "builtin %s vs collection %s" % (
            type(em).__name__ if em is not None else "no exception",
            ("%s: %s" % (type(ec).__name__, str(ec)[:80])) if ec is not None else "no exception",
        )
    elif em is None:
        if fam == "set" and op == "pop":
            # which element is popped is unspecified; mirror the collection's choice
            if rc is rm:
                pass
            elif any(rc is x for x in model):
                model.add(rm)
                model.remove(rc)
            else:
                aspect = "return"
                detail = "popped object was not a member"
        elif not same(rc, rm, coll, model):
            aspect = "return"
            detail = "builtin returned %r, collection returned %r" % (rm, rc)
    if aspect is None and not contents_same(fam, coll, model):
        aspect = "contents"
        detail = "builtin %r vs collection %r" % (names(fam, model), names(fam, coll))
    if aspect is None and conserve:
        ctx.count("conservation_checks")
        from vf.gen.ormrig_gk import conserved

        if not conserved(init_ids, rec.appended(), rec.removed(), member_ids(fam, coll)):
            aspect = "events"
            detail = "initial + appends - removes != final; events=%r contents=%r" % (
                [(k, "obj") for k, _ in rec.log][:12], names(fam, coll))
    if aspect is None:
        return True
    mech = hint or "%s-%s-%s" % (fam, op.replace(":", "-").replace("_", "-"), aspect)
    w = {"kind": kind, "initial": before, "spec": list(spec), "aspect": aspect, "detail": detail}
    if seqinfo:
        w["sequence_so_far"] = seqinfo
    ctx.violation(mech, "%s %s on %r: %s [%s]" % (kind, list(spec), before, detail, aspect), w)
    return False


def run_single(env, kind, n, spec):
    ctx = env.ctx
    fam = family(kind)
    rec = env.recs[kind]
    p, coll, model, kids, mk = env.fresh(kind, n)
    rec.clear()
    init_ids = member_ids(fam, model)
    op = spec[0]
    keep = None
    if fam == "list":
        a = list_materialize(spec, list(model), mk)
        apply, hint, mut = list_apply, list_hint(spec, n), op in LIST_MUTATORS
        conserve = op != "imul"
        ctx.count("list_cases")
        if op == "setslice":
            ctx.count("list_slice_set_cases")
    elif fam == "set":
        def other_coll(items):
            P, C = env.classes[kind]
            q = P()
            q.items = set(items)
            return q, q.items

        hold = []

        def ocf(items):
            q, c = other_coll(items)
            hold.append(q)
            return c

        a = set_materialize(spec, kids, mk, ocf)
        rec.clear()
        apply, hint, mut = set_apply, set_hint(spec), set_is_mutator(op)
        conserve = True
        ctx.count("set_cases")
        keep = hold
    else:
        a = dict_materialize(spec, dict(model), mk)
        apply, hint, mut = dict_apply, dict_hint(spec), dict_is_mutator(op)
        conserve = True
        ctx.count("dict_cases")
    snapshot = member_ids(fam, model)
    ok = judge_step(env, kind, n, spec, coll, model, rec, init_ids, apply, a, hint, conserve, mut)
    ctx.count("append_events", len(rec.appended()))
    ctx.count("remove_events", len(rec.removed()))
    nontrivial = member_ids(fam, model) != snapshot or not ok or not mut
    ctx.case({"k": kind, "n": n, "spec": list(spec)}, nontrivial=nontrivial)
    del keep
    return ok


# --------------------------------------------------------------------------
# random sequences
# --------------------------------------------------------------------------
def random_list_spec(rng, cur_len):
    r = rng.random()
    b = lambda: rng.choice([None, None] + list(range(-cur_len - 1, cur_len + 2)))
    if r < 0.22:
        step = rng.choice([None, None, 1, 1, 2, 3])
        sl = [b(), b(), step]
        if rng.random() < 0.25:
            # out-of-range / negative-step territory (the suspected-defect region)
            sl = [rng.choice([None] + list(range(-6, 7))), rng.choice([None] + list(range(-6, 7))),
                  rng.choice([None, 1, 2, -1, -2, -3])]
        return ("setslice", sl, rng.randint(0, 3), rng.choice(["list", "list", "tuple", "iter"]))
    if r < 0.30:
        return ("delslice", [b(), b(), rng.choice([None, 1, 2, -1, -2])])
    if r < 0.36:
        return ("getslice", [b(), b(), rng.choice([None, 1, 2, -1, -2])])
    if r < 0.46:
        return ("append",)
    if r < 0.54:
        return ("insert", rng.randint(-cur_len - 2, cur_len + 2))
    if r < 0.62:
        return ("pop", rng.randint(-cur_len - 1, cur_len)) if rng.random() < 0.7 else ("pop0",)
    if r < 0.70:
        return ("setitem", rng.randint(-cur_len - 1, cur_len), rng.choice(["fresh", "same"]))
    if r < 0.76:
        return ("delitem", rng.randint(-cur_len - 1, cur_len))
    if r < 0.82:
        return ("remove", rng.randint(0, max(cur_len - 1, 0)))
    if r < 0.88:
        return (rng.choice(["extend", "iadd"]), rng.randint(0, 3), rng.choice(["list", "tuple", "iter", "gen"]))
    if r < 0.93:
        return rng.choice([("reverse",), ("sort", False), ("sort", True)])
    if r < 0.95:
        return ("clear",)
    return rng.choice([("copy",), ("len",), ("iter",), ("count", 0), ("index", 0), ("contains", 0)])


def random_set_spec(rng, cur_len):
    r = rng.random()
    if r < 0.35:
        return (rng.choice(["add", "discard", "remove"]), rng.randint(-1, cur_len - 1))
    if r < 0.42:
        return ("pop",)
    if r < 0.45:
        return ("clear",)
    mask = rng.getrandbits(max(cur_len, 1)) if cur_len else 0
    nf = rng.randint(0, 2)
    ak = rng.choice(["set", "frozenset", "list", "iter", "coll"])
    if r < 0.70:
        return ("m:" + rng.choice(SET_BULK_METHODS), mask, nf, ak)
    if r < 0.90:
        return ("o:" + rng.choice(list(SET_IOPS)), mask, nf, rng.choice(["set", "frozenset", "coll", "list"]))
    return ("m:" + rng.choice(SET_PURE_METHODS), mask, nf, ak)


def random_dict_spec(rng, cur_len):
    r = rng.random()
    ki = rng.randint(0, cur_len)
    if len(KEYS) <= cur_len:
        ki = rng.randint(0, cur_len - 1)
    if r < 0.25:
        return ("setitem", ki, rng.choice(["fresh", "fresh", "same", "fresh_mismatch"]))
    if r < 0.35:
        return ("setdefault", ki, rng.choice(["fresh", "same"]))
    if r < 0.45:
        return ("delitem", ki)
    if r < 0.55:
        return (rng.choice(["pop", "pop_default", "pop_none", "pop_stored", "pop_member"]), ki)
    if r < 0.60:
        return ("popitem",)
    if r < 0.63:
        return ("clear",)
    if r < 0.70:
        return (rng.choice(["get", "contains", "copy", "items", "len"]),) if False else ("get", ki)
    mask = rng.getrandbits(cur_len) if cur_len else 0
    nf = rng.randint(0, min(2, len(KEYS) - cur_len))
    same_vals = bool(mask) and rng.random() < 0.3
    return ("u:" + rng.choice(["dict", "pairs", "pairs_iter", "kw", "dict_kw", "ior", "ior_pairs", "or"]), mask, nf, same_vals)


def run_sequence(env, kind, length, rng):
    ctx = env.ctx
    fam = family(kind)
    rec = env.recs[kind]
    n0 = rng.randint(0, 3)
    p, coll, model, kids, mk = env.fresh(kind, n0)
    rec.clear()
    init_ids = member_ids(fam, model)
    hold = []
    trail = []
    conserve = True
    for step in range(length):
        cur_len = len(model)
        if fam == "list":
            spec = random_list_spec(rng, cur_len)
            a = list_materialize(spec, list(model), mk)
            apply, hint = list_apply, list_hint(spec, cur_len)
            mut = spec[0] in LIST_MUTATORS
        elif fam == "set":
            spec = random_set_spec(rng, cur_len)
            cur_list = sorted(model, key=lambda c: c.name)

            def ocf(items):
                P, C = env.classes[kind]
                q = P()
                q.items = set(items)
                hold.append(q)
                return q.items

            nlog = len(rec.log)
            a = set_materialize(spec, cur_list, mk, ocf)
            del rec.log[nlog:]
            apply, hint = set_apply, set_hint(spec)
            mut = set_is_mutator(spec[0])
        else:
            spec = random_dict_spec(rng, cur_len)
            a = dict_materialize(spec, dict(model), mk)
            apply, hint = dict_apply, dict_hint(spec)
            mut = dict_is_mutator(spec[0])
        trail.append(list(spec))
        ctx.count("seq_steps")
        ok = judge_step(env, kind, cur_len, spec, coll, model, rec, init_ids, apply, a, hint, conserve, mut,
                        seqinfo=trail[-8:])
        if not ok:
            break  # the two sides have diverged; later steps would only echo it
    ctx.count("append_events", len(rec.appended()))
    ctx.count("remove_events", len(rec.removed()))
    ctx.case({"k": kind, "seq": trail}, nontrivial=len(trail) >= 3)


# --------------------------------------------------------------------------
def run(ctx):
    import warnings

    from sqlalchemy import exc as sa_exc

    warnings.simplefilter("ignore", sa_exc.SAWarning)
    env = Env(ctx)
    nmax = ctx.pick({"quick": 3, "thorough": 4})
    idx = 0
    # ---- exhaustive list part (InstrumentedList; the user subclass gets the non-slice
    # space and a third of the slice space)
    for kind in ("list", "mylist"):
        for n in range(0, nmax + 1):
            for spec in list_specs_slices():
                idx += 1
                if not ctx.mine(idx):
                    continue
                if kind == "mylist" and idx % 3:
                    continue
                run_single(env, kind, n, spec)
                if idx in (1234, 56789):
                    ctx.sample({"kind": kind, "n": n, "spec": list(spec)})
            for spec in list_specs_other():
                idx += 1
                if ctx.mine(idx):
                    run_single(env, kind, n, spec)
    ctx.count("exhaustive_list_done")
    # ---- exhaustive set / dict part
    for kind in ("set", "myset"):
        for n in range(0, 4):
            for spec in set_specs(n):
                idx += 1
                if ctx.mine(idx):
                    run_single(env, kind, n, spec)
    for kind in ("akd", "kfd"):
        for n in range(0, 4):
            for spec in dict_specs(n):
                idx += 1
                if ctx.mine(idx):
                    run_single(env, kind, n, spec)
                    if idx % 40000 == 7:
                        ctx.sample({"kind": kind, "n": n, "spec": list(spec)})
    ctx.count("exhaustive_set_dict_done")
    # ---- random sequences
    nseq = ctx.pick({"quick": 250, "thorough": 6000})
    length = ctx.pick({"quick": 14, "thorough": 30})
    kinds = ("list", "mylist", "set", "myset", "akd", "kfd")
    for k in range(nseq):
        if not ctx.budget_ok():
            break
        run_sequence(env, kinds[k % len(kinds)], length, ctx.rng)
    env.dispose()
