"""C39 -- cascades follow their configured rules.

For every valid cascade subset of {save-update, merge, refresh-expire, expunge, delete}
(+ delete-orphan where delete is present) on the "forward" relationship of four schema
kinds - Z1 parent/child/grandchild chain, Z2 self-referential tree, Z3 many-to-many,
Z5 one-to-one - with two settings of the reverse relationship's cascade, a private
mapping is built and driven through generated object graphs and histories.  A small
*shadow graph* (names + adjacency, maintained by the harness alongside every ORM
mutation) gives the reachability oracle: closure from the operated object along the
relationships whose cascade contains the operation, over the graph as it stood when the
operation ran.

Scenarios (each on fresh objects and a fresh Session):
  SU   transient graph; ``session.add(x)``: the objects in the session are exactly the
       save-update closure; then objects are attached to session members through a
       relationship (forward mutation) and join exactly when that relationship carries
       save-update; after ``flush`` the rows present are exactly the session's objects.
  DEL  fully persisted graph (loaded, or expired so that collections are unloaded);
       ``session.delete(x); flush()``: rows deleted == delete closure of x.
  ORPH (delete-orphan configs) persisted graph; children are removed, re-parented,
       removed and re-added, collections replaced, scalar attributes touched; after
       ``flush`` a child row is gone exactly when the child ended without a parent
       (+ its own delete closure); no child row with a NULL parent key remains.
  EXP  ``session.expunge(x)``: objects leaving the session == expunge closure.
  REF  ``session.expire(x)`` / ``refresh(x)``: objects whose state is expired ==
       refresh-expire closure (x itself is reloaded by refresh).
  MRG  ``other_session.merge(x)`` of a transient graph: the new objects of the other
       session correspond exactly to the merge closure.

Added after the seeded-change round: kind Z6 (the Z1 chain without any backref:
unidirectional one-to-many), scenario PRE (a transient child is put into and taken out
of a delete-orphan relationship while nobody is in a session, stays parentless, is then
given to add()/add_all() explicitly: it must be INSERTed with its save-update closure),
scenario ORPH-D and a random step in ORPH (a child is removed from a delete-orphan
collection and the parent is session.delete()d in the same flush: the removed child is
deleted as an orphan together with its own delete closure).  Extra guards: an object
attached to a parent in the round is not chosen for delete() (the attachment cancels a
delete by design); in the unidirectional kind children are never moved between parents
and a child that was in no collection at the last flush is not attached-and-detached
(the unit of work cannot see it unless it happens to be dirty).

Added after the second seeded-change round: kinds Z7 (one-to-one with a collection below
the scalar target) and Z8 (many-to-one holder side, ``single_parent`` when delete-orphan,
collection below the target); scenario PEND-REF (expire / refresh / expire_all while
pending objects hang off persistent or pending members, autoflush off: pending targets
are skipped by the refresh-expire cascade - they stay and are INSERTed - except through a
delete-orphan relationship, where they are expunged; for every cascade setting);
scenario PEND-ORPH (a pending value with 1-3 levels of pending descendants is removed
from / replaced on / deleted from a collection, one-to-one or single-parent many-to-one
delete-orphan relationship of a pending or persistent owner between two flushes: it is
expunged together with exactly its expunge closure, everything else is INSERTed).  The
older orphan scenarios (ORPH, ORPH-T, ORPH-D, PRE) are not run for the many-to-one
delete-orphan kind (they assume the delete-orphan side holds the collection/scalar of
children); transient replacement of a single-parent target is guarded like any other
pre-session orphaning.

Guards: operations are issued on the relationship that carries the cascade (SQLAlchemy
2.x does not cascade through the backref side of an event); delete / expunge / expire /
merge run on flushed, fully loaded graphs (non-delete cascades deliberately do not load
unloaded attributes; expire of a pending object expunges it by design); no object is
deleted while the graph around it has unflushed changes; passive_deletes / viewonly /
single_parent are at their defaults; duplicates, one-to-one "steals" and cycles in the
tree are not generated.  Further guards found necessary:
* removing a *pending* child from a delete-orphan parent expunges it (documented): while
  objects are transient/pending, children of delete-orphan relationships are only ever
  attached, never moved or removed;
* in the self-referential kind an edge that is still in the database is never inverted,
  not even transitively, within one flush (circular-dependency limitation);
* ``Session.merge`` does not descend into a relationship of an object it reached through
  that relationship's reverse side: the merge scenario is judged only on graphs where
  that pruning cannot change the result (both traversal orders agree with the closure);
* collections that still list objects deleted by the previous flush are stale by
  design: everything is expired after each delete step.
A flush that raises IntegrityError in the delete / orphan scenarios is reported (a row
the cascade should have removed is still referencing a deleted one).

``delete-orphan-toplevel-skips-delete-cascade`` was fixed in /repo (341a8e1).  Still firing
on the live tree (candidate defect, same omission in another place, see the report and
selftest/C39/PROPOSED_FIX_presort_deletes_orphan_cascade.patch.txt):
``delete-orphan-parent-delete-skips-orphan-cascade``.
"""
from __future__ import annotations

import itertools

META = {
    "id": "C39",
    "level": "exploration",
    "technique": "shadow-graph reachability oracle vs session membership / raw rows / expired flags after add, delete, orphaning, expunge, expire, refresh, merge under every cascade configuration",
    "level_text": "All 48 valid cascade settings of the forward relationship x 2 reverse settings on four schema kinds (chain, tree, many-to-many, one-to-one); per configuration several generated graphs per scenario (save-update on add and on attach, delete with loaded and unloaded collections, delete-orphan histories with re-parenting and re-attachment, expunge, expire/refresh, merge).",
    "level_note": "SQLite in-memory, FK enforcement on. Cascades are judged on fully loaded graphs except the delete scenario; backref-side cascade (removed in 2.0), passive_deletes, viewonly, single_parent and legacy_is_orphan are not varied.",
    "design_ref": "DESIGN.md section 4, C39",
    "rule": "case = (kind, cascade configuration, scenario, generated graph + history); non-trivial = the expected closure contains at least one object besides the operated one or the history changed a parent link",
    "shards": {"quick": 8, "thorough": 16},
    "soft_s": {"quick": 60, "thorough": 900},
    "exhaustive": {"quick": True, "thorough": True},
    "require": ["configs", "su_checks", "del_checks", "orphan_checks", "exp_checks", "ref_checks", "mrg_checks",
                "nontrivial_closures", "rows_compared", "pending_ref_checks", "pending_orphan_checks"],
    "assumptions": ["the shadow graph (<100 lines) mirrors link/unlink semantics of o2m/m2o/m2m/o2o pairs"],
}


# --------------------------------------------------------------------------
# shadow graph
# --------------------------------------------------------------------------
class Shadow:
    def __init__(self, rels):
        self.rels = rels
        self.relmap = {(r.cls, r.attr): r for r in rels}
        self.by_cls = {}
        for r in rels:
            self.by_cls.setdefault(r.cls, []).append(r)
        self.cls_of = {}
        self.val = {}

    def add_node(self, name, cls):
        self.cls_of[name] = cls
        for r in self.by_cls.get(cls, ()):
            self.val[(name, r.attr)] = [] if r.collection else None

    def rev(self, rel):
        return self.relmap[(rel.target, rel.rev)]

    def targets(self, n, rel):
        v = self.val[(n, rel.attr)]
        if rel.collection:
            return list(v)
        return [v] if v is not None else []

    def _set_scalar(self, n, attr, v):
        self.val[(n, attr)] = v

    def link(self, x, rel, y):
        rev = self.rev(rel)
        if rel.shape == "m2o":
            return self.link(y, rev, x)
        if rel.shape == "o2m":
            old = self.val[(y, rev.attr)]
            if old is not None and old != x:
                self.val[(old, rel.attr)].remove(y)
            if y not in self.val[(x, rel.attr)]:
                self.val[(x, rel.attr)].append(y)
            self.val[(y, rev.attr)] = x
        elif rel.shape == "m2m":
            if y not in self.val[(x, rel.attr)]:
                self.val[(x, rel.attr)].append(y)
            if x not in self.val[(y, rev.attr)]:
                self.val[(y, rev.attr)].append(x)
        else:  # o2o holder side
            old = self.val[(x, rel.attr)]
            if old is not None and old != y:
                self.val[(old, rev.attr)] = None
            oldh = self.val[(y, rev.attr)]
            if oldh is not None and oldh != x:
                self.val[(oldh, rel.attr)] = None
            self.val[(x, rel.attr)] = y
            self.val[(y, rev.attr)] = x

    def unlink(self, x, rel, y):
        rev = self.rev(rel)
        if rel.shape == "m2o":
            return self.unlink(y, rev, x)
        if rel.shape == "o2m":
            if y in self.val[(x, rel.attr)]:
                self.val[(x, rel.attr)].remove(y)
                self.val[(y, rev.attr)] = None
        elif rel.shape == "m2m":
            if y in self.val[(x, rel.attr)]:
                self.val[(x, rel.attr)].remove(y)
                self.val[(y, rev.attr)].remove(x)
        else:
            if self.val[(x, rel.attr)] == y:
                self.val[(x, rel.attr)] = None
                self.val[(y, rev.attr)] = None

    def remove_node(self, n):
        cls = self.cls_of.pop(n)
        for r in self.by_cls.get(cls, ()):
            for t in self.targets(n, r):
                self.unlink(n, r, t)
            del self.val[(n, r.attr)]

    def closure(self, start, kind, halt=()):
        seen = [start]
        stack = [start]
        while stack:
            n = stack.pop()
            for r in self.by_cls.get(self.cls_of[n], ()):
                if kind not in r.cascade:
                    continue
                for t in self.targets(n, r):
                    if t in seen or t in halt:
                        continue
                    seen.append(t)
                    stack.append(t)
        return set(seen)

    def merge_closure(self, start, reverse_order=False):
        """Session.merge() does not descend into a relationship of an object it reached
        through that relationship's reverse side (RelationshipProperty.merge consults
        _reverse_property / _recursive): depth-first walk with that pruning."""
        seen = []

        def visit(n, via):
            if n in seen:
                return
            seen.append(n)
            rels = list(self.by_cls.get(self.cls_of[n], ()))
            if reverse_order:
                rels.reverse()
            for r in rels:
                if "merge" not in r.cascade:
                    continue
                if via is not None and r.cls == via.target and r.attr == via.rev:
                    continue
                for t in self.targets(n, r):
                    visit(t, r)

        visit(start, None)
        return set(seen)

    def refresh_closure(self, start, pending):
        """refresh-expire cascade: a *pending* target is skipped (neither yielded nor
        traversed) unless the relationship is delete-orphan."""
        seen = [start]
        stack = [start]
        while stack:
            n = stack.pop()
            for r in self.by_cls.get(self.cls_of[n], ()):
                if "refresh-expire" not in r.cascade:
                    continue
                for t in self.targets(n, r):
                    if t in seen or (t in pending and not r.orphan):
                        continue
                    seen.append(t)
                    stack.append(t)
        return set(seen)

    def ancestors(self, n, up_attr):
        out = []
        cur = self.val.get((n, up_attr))
        while cur is not None and cur not in out:
            out.append(cur)
            cur = self.val.get((cur, up_attr))
        return out

    def describe(self):
        return {"%s.%s" % k: v for k, v in sorted(self.val.items()) if v}


# --------------------------------------------------------------------------
class Config:
    def __init__(self, kind, fwd, orphan, back, second=None, second_orphan=False):
        self.kind, self.fwd, self.orphan, self.back = kind, tuple(fwd), orphan, tuple(back)
        self.second, self.second_orphan = (None if second is None else tuple(second)), second_orphan

    def desc(self):
        from vf.gen.ormrig_gk import cascade_string

        d = {"kind": self.kind, "fwd": cascade_string(self.fwd, self.orphan), "back": cascade_string(self.back)}
        if self.second is not None:
            d["second"] = cascade_string(self.second, self.second_orphan)
        return d


def all_configs():
    from vf.gen.ormrig_gk import CASCADES

    subsets = []
    for k in range(len(CASCADES) + 1):
        for s in itertools.combinations(CASCADES, k):
            subsets.append((s, False))
            if "delete" in s:
                subsets.append((s, True))
    seconds = [((), False), (CASCADES, False), (CASCADES, True), (("delete",), False),
               (("save-update", "merge"), False), (("save-update", "merge", "refresh-expire", "expunge"), False)]
    backs = [(), ("save-update", "merge")]
    n = 0
    for kind in ("Z1", "Z2", "Z3", "Z5", "Z6", "Z7", "Z8"):
        for s, orphan in subsets:
            if kind == "Z3" and orphan:
                continue
            for back in backs:
                n += 1
                if kind in ("Z7", "Z8"):
                    if bool(back) != bool(n // 2 % 2):
                        continue  # one of the two reverse settings per subset, alternating
                    sec, sec_o = seconds[n % len(seconds)]
                    yield Config(kind, s, orphan, back, sec, sec_o)
                elif kind == "Z6":
                    if back:
                        continue  # no reverse side at all
                    sec, sec_o = seconds[n % len(seconds)]
                    yield Config(kind, s, orphan, (), sec, sec_o)
                elif kind == "Z1":
                    sec, sec_o = seconds[n % len(seconds)]
                    yield Config(kind, s, orphan, back, sec, sec_o)
                elif kind == "Z3" and back:
                    yield Config(kind, s, orphan, ("save-update", "merge", "expunge", "refresh-expire"))
                else:
                    yield Config(kind, s, orphan, back)


class World:
    """one mapping + engine; fresh objects per scenario via reset()."""

    def __init__(self, ctx, cfg):
        from vf.gen.ormrig_gk import c39_mapping, sqlite_engine

        self.ctx, self.cfg = ctx, cfg
        self.reg, self.classes, self.rels = c39_mapping(cfg.kind, cfg.fwd, cfg.orphan, cfg.back, cfg.second,
                                                        cfg.second_orphan)
        self.eng = sqlite_engine()
        self.reg.metadata.create_all(self.eng)
        self.orphan_rels = [r for r in self.rels if r.orphan]
        self.real_rels = [r for r in self.rels if not r.virtual]
        # the older orphan scenarios assume the delete-orphan side holds the child
        self.m2o_orphan = any(r.orphan and r.shape == "m2o" for r in self.rels)
        self.serial = 0
        self.dirty_db = False
        self.reset()

    def dispose(self):
        self.eng.dispose()
        self.reg.dispose()

    def reset(self):
        self.sh = Shadow(self.rels)
        self.obj = {}
        self.db_par = {}
        if self.dirty_db:
            with self.eng.begin() as conn:
                for t in reversed(self.reg.metadata.sorted_tables):
                    conn.execute(t.delete())
            self.dirty_db = False

    def new(self, cls):
        self.serial += 1
        name = "%s%d" % (cls.lower(), self.serial)
        o = self.classes[cls](name=name, v=0)
        self.obj[name] = o
        self.sh.add_node(name, cls)
        return name

    # ---- guarded link / unlink applied to both the ORM objects and the shadow ----
    def can_link(self, x, rel, y):
        sh = self.sh
        if x == y:
            return False
        rev = sh.rev(rel)
        if rel.virtual:
            return False
        if rel.collection and y in sh.val[(x, rel.attr)]:
            return False
        if rev.virtual and sh.val[(y, rev.attr)] not in (None, x):
            return False  # unidirectional: nothing would take the child out of the other list
        if rel.shape == "m2o" and rel.orphan and any(h != x for h in sh.val[(y, rev.attr)]):
            return False  # single_parent: the target may have one holder only
        if rev.shape == "m2o" and rev.orphan and any(h != y for h in sh.val[(x, rel.attr)]):
            return False
        if rel.shape == "o2o":
            h = sh.val[(y, rev.attr)]
            if h is not None and h != x:
                return False
        if rel.shape == "m2o" and rev.shape == "o2o":
            ch = sh.val[(y, rev.attr)]
            if ch is not None and ch != x:
                return False
        if self.cfg.kind == "Z2":
            parent, child = (x, y) if rel.shape == "o2m" else (y, x)
            if child in sh.ancestors(parent, "par") or child == parent:
                return False
            # inverting (even transitively) an edge that is still in the database within one
            # flush is a documented limitation of self-referential tables (circular
            # dependency / FK order): the union of the rows' parent->child edges and the
            # in-memory ones must stay acyclic
            down = {}
            for n in self.obj:
                for par in (self.db_par.get(n), sh.val.get((n, "par"))):
                    if par is not None:
                        down.setdefault(par, set()).add(n)
            stack, seen = [child], set()
            while stack:
                cur = stack.pop()
                if cur == parent:
                    return False
                if cur in seen:
                    continue
                seen.add(cur)
                stack.extend(down.get(cur, ()))
        return True

    def snapshot_db_parents(self):
        self.db_par = {n: self.sh.val.get((n, "par")) for n in self.obj} if self.cfg.kind == "Z2" else {}

    def link(self, x, rel, y):
        ox, oy = self.obj[x], self.obj[y]
        if rel.collection:
            getattr(ox, rel.attr).append(oy)
        else:
            setattr(ox, rel.attr, oy)
        self.sh.link(x, rel, y)

    def unlink(self, x, rel, y):
        ox, oy = self.obj[x], self.obj[y]
        if rel.collection:
            getattr(ox, rel.attr).remove(oy)
        else:
            setattr(ox, rel.attr, None)
        self.sh.unlink(x, rel, y)

    def random_graph(self, rng, per_class=(2, 3), links=None):
        names = []
        for cls in self.classes:
            for _ in range(rng.randint(*per_class)):
                names.append(self.new(cls))
        nlinks = links if links is not None else rng.randint(len(names) // 2, len(names) + 2)
        for _ in range(nlinks):
            rel = rng.choice(self.real_rels)
            xs = [n for n in names if self.sh.cls_of[n] == rel.cls]
            ys = [n for n in names if self.sh.cls_of[n] == rel.target]
            x, y = rng.choice(xs), rng.choice(ys)
            if self.can_link(x, rel, y) and not self.is_move_of_orphan_tracked(x, rel, y):
                self.link(x, rel, y)
        return names

    def is_move_of_orphan_tracked(self, x, rel, y):
        """linking would take a child away from its current delete-orphan parent"""
        rev = self.sh.rev(rel)
        if rel.shape == "m2o" and rel.orphan:
            cur = self.sh.val[(x, rel.attr)]  # replacing the holder's target orphans it
            return cur is not None and cur != y
        if rev.shape == "m2o" and rev.orphan:
            cur = self.sh.val[(y, rev.attr)]
            return cur is not None and cur != x
        o2m, child = (rel, y) if rel.shape in ("o2m", "o2o") else (rev, x)
        if not o2m.orphan:
            return False
        back = self.sh.rev(o2m)
        cur = self.sh.val[(child, back.attr)]
        newp = x if o2m is rel else y
        if cur is not None and cur != newp:
            return True
        if o2m.shape == "o2o":
            # replacing the holder's current child orphans that child
            held = self.sh.val[(newp, o2m.attr)]
            return held is not None and held != child
        return False

    def table_names(self, sess):
        from vf.gen.ormrig_gk import raw_rows

        out = set()
        for cls, c in self.classes.items():
            out.update(r[0] for r in raw_rows(sess, "select name from %s" % c.__table__.name))
        self.ctx.count("rows_compared")
        return out

    def in_session(self, sess):
        return {n for n, o in self.obj.items() if o in sess}

    def load_all(self):
        for n, o in self.obj.items():
            for r in self.sh.by_cls.get(self.sh.cls_of[n], ()):
                if not r.virtual:
                    getattr(o, r.attr)
            o.name


def violation(w, scenario, mech, summary, extra):
    wit = {"config": w.cfg.desc(), "scenario": scenario, "graph": w.sh.describe()}
    wit.update(extra)
    w.ctx.violation(mech, "%s %s: %s" % (w.cfg.desc(), scenario, summary), wit)


def casc_tag(rels, kind_name):
    """which relationships carry the cascade under test (for mechanisms)"""
    return "+".join(sorted("%s.%s" % (r.cls, r.attr) for r in rels if kind_name in r.cascade)) or "none"


# --------------------------------------------------------------------------
# scenarios
# --------------------------------------------------------------------------
def scenario_su(w, rng):
    from sqlalchemy import orm

    ctx = w.ctx
    w.reset()
    names = w.random_graph(rng)
    hist = []
    with orm.Session(w.eng, expire_on_commit=False) as sess:
        expected = set()
        steps = rng.randint(1, 3)
        for step in range(steps):
            if step == 0 or rng.random() < 0.4:
                x = rng.choice(names)
                hist.append(["add", x])
                before = w.sh.describe()
                sess.add(w.obj[x])
                if x not in expected:
                    expected |= w.sh.closure(x, "save-update", halt=expected)
                else:
                    # re-adding a member re-cascades from it
                    expected |= w.sh.closure(x, "save-update", halt=expected - {x})
            else:
                members = sorted(expected)
                if not members:
                    continue
                x = rng.choice(members)
                rels = [r for r in w.sh.by_cls.get(w.sh.cls_of[x], []) if not r.virtual]
                if not rels:
                    continue
                rel = rng.choice(rels)
                y = w.new(rel.target)
                # the fresh object may bring a fresh subgraph below it
                for r2 in w.sh.by_cls.get(rel.target, []):
                    if rng.random() < 0.5 and r2.shape in ("o2m", "m2m", "o2o"):
                        z = w.new(r2.target)
                        if w.can_link(y, r2, z):
                            w.link(y, r2, z)
                if not w.can_link(x, rel, y) or w.is_move_of_orphan_tracked(x, rel, y):
                    # (removing a pending child from a delete-orphan parent expunges it: documented)
                    continue
                hist.append(["attach", x, rel.attr, y])
                w.link(x, rel, y)
                if "save-update" in rel.cascade:
                    expected |= w.sh.closure(y, "save-update", halt=expected)
            ctx.count("su_checks")
            got = w.in_session(sess)
            if got != expected:
                violation(w, "SU", "save-update-membership-%s" % hist[-1][0],
                          "after %s the session holds %s, save-update closure is %s" % (hist, sorted(got), sorted(expected)),
                          {"history": hist, "session": sorted(got), "expected": sorted(expected)})
                return
            if len(expected) > 1:
                ctx.count("nontrivial_closures")
        # flush: rows == session members
        sess.flush()
        expected_rows = expected
        rows = w.table_names(sess)
        got = w.in_session(sess)
        if rows != expected_rows or got != expected_rows:
            violation(w, "SU", "save-update-flush-rows",
                      "after %s + flush: rows %s, session %s, expected %s" % (hist, sorted(rows), sorted(got), sorted(expected_rows)),
                      {"history": hist, "rows": sorted(rows), "session": sorted(got), "expected": sorted(expected_rows)})
        sess.rollback()
    ctx.case({"cfg": w.cfg.desc(), "sc": "SU", "hist": hist, "g": w.sh.describe()}, nontrivial=len(expected) > 1)


def persist_all(w, sess, names):
    sess.add_all([w.obj[n] for n in names])
    sess.commit()
    w.dirty_db = True


def scenario_del(w, rng):
    from sqlalchemy import exc as sa_exc
    from sqlalchemy import orm

    ctx = w.ctx
    w.reset()
    names = w.random_graph(rng)
    hist = []
    nontrivial = False
    with orm.Session(w.eng, expire_on_commit=False) as sess:
        persist_all(w, sess, names)
        unloaded = rng.random() < 0.5
        for step in range(rng.randint(1, 2)):
            live = sorted(w.obj)
            if not live:
                break
            if unloaded:
                sess.expire_all()
            x = rng.choice(live)
            closure = w.sh.closure(x, "delete")
            hist.append(["delete", x, "unloaded" if unloaded else "loaded"])
            before_rows = w.table_names(sess)
            sess.delete(w.obj[x])
            try:
                sess.flush()
            except sa_exc.IntegrityError as e:
                # a row the delete cascade should have removed (or detached) is still
                # referencing a deleted one: the cascade was not followed
                ctx.count("del_checks")
                violation(w, "DEL", "delete-cascade-%s-flush-integrityerror" % ("unloaded" if unloaded else "loaded"),
                          "after %s flush raised IntegrityError on [%s]; delete closure %s" % (
                              hist, str(e).split("[SQL:")[-1][:50], sorted(closure)),
                          {"history": hist, "expected": sorted(closure), "error": str(e)[:300]})
                sess.rollback()
                break
            rows = w.table_names(sess)
            ctx.count("del_checks")
            deleted = before_rows - rows
            if deleted != closure or (rows - before_rows):
                violation(w, "DEL", "delete-cascade-%s" % ("unloaded" if unloaded else "loaded"),
                          "after %s rows deleted %s, delete closure %s" % (hist, sorted(deleted), sorted(closure)),
                          {"history": hist, "deleted": sorted(deleted), "expected": sorted(closure)})
                sess.rollback()
                break
            if len(closure) > 1:
                nontrivial = True
                ctx.count("nontrivial_closures")
            for n in closure:
                w.sh.remove_node(n)
                del w.obj[n]
            sess.commit()
            # collections still listing objects deleted by that flush are stale by design
            sess.expire_all()
            unloaded = rng.random() < 0.5
            if not unloaded:
                w.load_all()
        sess.rollback()
    ctx.case({"cfg": w.cfg.desc(), "sc": "DEL", "hist": hist, "g": w.sh.describe()}, nontrivial=nontrivial)


def scenario_orph(w, rng):
    """delete-orphan histories on a persisted, loaded graph (every object persistent)."""
    from sqlalchemy import exc as sa_exc
    from sqlalchemy import orm

    ctx = w.ctx
    w.reset()
    names = w.random_graph(rng, per_class=(2, 3))
    hist = []
    changed = False
    with orm.Session(w.eng, expire_on_commit=False) as sess:
        persist_all(w, sess, names)
        w.load_all()
        for rnd in range(rng.randint(1, 2)):
            w.snapshot_db_parents()
            db_parent = {}
            for rel in w.orphan_rels:
                rev = w.sh.rev(rel)
                for n in w.obj:
                    if w.sh.cls_of[n] == rel.target:
                        db_parent[(n, rel.attr)] = w.sh.val[(n, rev.attr)]
            removed = set()  # children that lost a delete-orphan parent link during this round
            attached = set()
            for step in range(rng.randint(1, 5)):
                rel = rng.choice(w.orphan_rels)
                rev = w.sh.rev(rel)
                parents = sorted(n for n in w.obj if w.sh.cls_of[n] == rel.cls)
                kids = sorted(n for n in w.obj if w.sh.cls_of[n] == rel.target)
                if not parents or not kids:
                    break
                r = rng.random()
                p = rng.choice(parents)
                cur = w.sh.targets(p, rel)
                if r < 0.35 and cur:
                    c = rng.choice(cur)
                    hist.append(["remove", p, rel.attr, c])
                    w.unlink(p, rel, c)
                    removed.add(c)
                    changed = True
                elif r < 0.6:
                    c = rng.choice(kids)
                    if rev.virtual and db_parent.get((c, rel.attr)) is None:
                        # unidirectional: a child that was in no collection at the last flush and
                        # is attached and detached again is invisible to the unit of work
                        continue
                    if w.can_link(p, rel, c):
                        hist.append(["attach", p, rel.attr, c])
                        attached.add(c)
                        oldp = w.sh.val[(c, rev.attr)]
                        if oldp is not None and oldp != p:
                            removed.add(c)
                        if not rel.collection and cur and cur[0] != c:
                            removed.add(cur[0])  # one-to-one: the previous child is displaced
                        w.link(p, rel, c)
                        changed = True
                elif r < 0.7 and cur:
                    c = rng.choice(cur)
                    hist.append(["remove+readd", p, rel.attr, c])
                    w.unlink(p, rel, c)
                    w.link(p, rel, c)
                    removed.add(c)
                    attached.add(c)
                elif r < 0.8 and rel.collection:
                    keep = [c for c in cur if rng.random() < 0.5]
                    hist.append(["replace", p, rel.attr, keep])
                    setattr(w.obj[p], rel.attr, [w.obj[c] for c in keep])
                    for c in cur:
                        if c not in keep:
                            w.sh.unlink(p, rel, c)
                            removed.add(c)
                    changed = True
                else:
                    c = rng.choice(kids)
                    hist.append(["touch", c])
                    w.obj[c].v = w.obj[c].v + 1
            # expectation at flush: removed and not re-associated -> deleted with its delete closure
            gone = set()
            toplevel = set()  # orphans that were in no parent's collection at the last flush
            for rel in w.orphan_rels:
                rev = w.sh.rev(rel)
                for n in sorted(removed):
                    if n in w.obj and w.sh.cls_of[n] == rel.target and w.sh.val[(n, rev.attr)] is None:
                        gone |= w.sh.closure(n, "delete")
                        if db_parent.get((n, rel.attr)) is None:
                            toplevel.add(n)
            parent_deleted = False
            if rng.random() < 0.25:
                # delete a parent of the delete-orphan relationship in the same flush
                rel = rng.choice(w.orphan_rels)
                # (an object that was attached to a parent in this round is excluded:
                # the attachment cancels a delete by design)
                parents = sorted(n for n in w.obj if w.sh.cls_of[n] == rel.cls and n not in attached)
                if parents:
                    p = rng.choice(parents)
                    hist.append(["delete", p])
                    parent_deleted = True
                    gone |= w.sh.closure(p, "delete")
                    sess.delete(w.obj[p])
                    changed = True
            hist.append(["flush"])
            orphans = toplevel
            try:
                sess.flush()
            except sa_exc.IntegrityError as e:
                ctx.count("orphan_checks")
                violation(w, "ORPH", "delete-orphan-toplevel-skips-delete-cascade" if toplevel
                          else "delete-orphan-parent-delete-skips-orphan-cascade" if parent_deleted
                          else "delete-orphan-flush-integrityerror",
                          "after %s flush raised %s on [%s]; orphans %s with delete closure %s" % (
                              hist, type(e).__name__, str(e).split("[SQL:")[-1][:60], sorted(orphans), sorted(gone)),
                          {"history": hist, "error": str(e)[:300]})
                sess.rollback()
                break
            rows = w.table_names(sess)
            ctx.count("orphan_checks")
            want = set(w.obj) - gone
            if rows != want:
                wrongly_deleted = sorted(want - rows)
                survived = sorted(rows - want)
                mech = "delete-orphan-deletes-associated-member" if wrongly_deleted else "delete-orphan-row-survives"
                if not wrongly_deleted and survived and parent_deleted and not (set(survived) & removed):
                    mech = "delete-orphan-parent-delete-skips-orphan-cascade"
                elif not wrongly_deleted and survived and toplevel and not (set(survived) & toplevel):
                    # the orphan itself is gone but what its delete cascade reaches survived
                    mech = "delete-orphan-toplevel-skips-delete-cascade"
                violation(w, "ORPH", mech,
                          "after %s: rows %s, expected %s (wrongly deleted %s, orphans surviving %s)" % (
                              hist, sorted(rows), sorted(want), wrongly_deleted, survived),
                          {"history": hist, "rows": sorted(rows), "expected": sorted(want)})
                sess.rollback()
                break
            if gone:
                ctx.count("nontrivial_closures")
            for n in gone:
                w.sh.remove_node(n)
                del w.obj[n]
            sess.commit()
        sess.rollback()
    ctx.case({"cfg": w.cfg.desc(), "sc": "ORPH", "hist": hist, "g": w.sh.describe()}, nontrivial=changed)


def scenario_orph_targeted(w):
    """deterministic companion of ORPH: a persistent child that is in no parent's
    collection, with dependents of its own, is attached to a delete-orphan parent and
    detached again before the flush.  By the property it was removed from a delete-orphan
    relationship and not re-associated: it is deleted, together with its delete closure."""
    from sqlalchemy import exc as sa_exc
    from sqlalchemy import orm

    ctx = w.ctx
    rel = w.orphan_rels[0]
    below = [r for r in w.sh.by_cls.get(rel.target, ()) if r.shape in ("o2m", "o2o", "m2m")]
    if not below or w.sh.rev(rel).virtual:
        return  # (unidirectional: the child is untouched, the unit of work cannot see it)
    w.reset()
    p, c = w.new(rel.cls), w.new(rel.target)
    g = w.new(below[0].target)
    w.link(c, below[0], g)
    hist = [["persist", p, c, g], ["attach", p, rel.attr, c], ["remove", p, rel.attr, c], ["flush"]]
    with orm.Session(w.eng, expire_on_commit=False) as sess:
        persist_all(w, sess, [p, c, g])
        w.load_all()
        w.link(p, rel, c)
        w.unlink(p, rel, c)
        gone = w.sh.closure(c, "delete")
        want = set(w.obj) - gone
        ctx.count("orphan_checks")
        try:
            sess.flush()
            rows = w.table_names(sess)
            problem = None if rows == want else "rows %s, expected %s" % (sorted(rows), sorted(want))
        except sa_exc.IntegrityError as e:
            problem = "flush raised IntegrityError on [%s]" % str(e).split("[SQL:")[-1][:50]
        if problem:
            violation(w, "ORPH-T", "delete-orphan-toplevel-skips-delete-cascade",
                      "after %s: %s (delete closure of the orphan: %s)" % (hist, problem, sorted(gone)),
                      {"history": hist, "expected": sorted(want)})
        sess.rollback()
    ctx.case({"cfg": w.cfg.desc(), "sc": "ORPH-T"}, nontrivial=len(gone) > 1)


def scenario_orph_delete_parent(w):
    """a persistent child is removed from a delete-orphan collection and its parent is
    deleted in the same flush: the removed child is an orphan (deleted with its delete
    closure), the parent's delete cascade takes the remaining children."""
    from sqlalchemy import exc as sa_exc
    from sqlalchemy import orm

    ctx = w.ctx
    rel = w.orphan_rels[0]
    w.reset()
    p, c1 = w.new(rel.cls), w.new(rel.target)
    names = [p, c1]
    w.link(p, rel, c1)
    if rel.collection:
        c2 = w.new(rel.target)
        w.link(p, rel, c2)
        names.append(c2)
    below = [r for r in w.sh.by_cls.get(rel.target, ()) if r.shape in ("o2m", "o2o", "m2m") and not r.virtual]
    if below and below[0].target != rel.cls or (below and w.cfg.kind == "Z2"):
        g = w.new(below[0].target)
        if w.can_link(c1, below[0], g):
            w.link(c1, below[0], g)
        names.append(g)
    hist = [["persist"] + names, ["remove", p, rel.attr, c1], ["delete", p], ["flush"]]
    with orm.Session(w.eng, expire_on_commit=False) as sess:
        persist_all(w, sess, names)
        w.load_all()
        w.unlink(p, rel, c1)
        gone = w.sh.closure(c1, "delete") | w.sh.closure(p, "delete")
        sess.delete(w.obj[p])
        want = set(w.obj) - gone
        ctx.count("orphan_checks")
        mech = "delete-orphan-removed-child-survives-parent-delete"
        try:
            sess.flush()
            rows = w.table_names(sess)
            problem = None if rows == want else "rows %s, expected %s" % (sorted(rows), sorted(want))
            if problem and c1 not in rows and p not in rows:
                mech = "delete-orphan-parent-delete-skips-orphan-cascade"
        except sa_exc.IntegrityError as e:
            # the orphan is DELETEd while rows its own delete cascade should have removed
            # still reference it
            problem = "flush raised IntegrityError on [%s]" % str(e).split("[SQL:")[-1][:50]
            mech = "delete-orphan-parent-delete-skips-orphan-cascade"
        if problem:
            violation(w, "ORPH-D", mech,
                      "after %s: %s" % (hist, problem), {"history": hist, "expected": sorted(want)})
        sess.rollback()
    ctx.case({"cfg": w.cfg.desc(), "sc": "ORPH-D"}, nontrivial=True)


def scenario_pre_orphan(w, rng):
    """nobody is in a session: a transient child is put into a delete-orphan relationship
    and taken out again (remove / replacement / del), stays parentless, and is then given
    to Session.add() / add_all() explicitly.  It is the argument of add(): it is part of
    the session with its save-update closure and flush INSERTs it."""
    from sqlalchemy import orm

    ctx = w.ctx
    rel = rng.choice(w.orphan_rels)
    w.reset()
    p, c = w.new(rel.cls), w.new(rel.target)
    below = [r for r in w.sh.by_cls.get(rel.target, ()) if r.shape in ("o2m", "o2o", "m2m") and not r.virtual]
    if below and rng.random() < 0.6:
        g = w.new(below[0].target)
        if w.can_link(c, below[0], g):
            w.link(c, below[0], g)
    w.link(p, rel, c)
    how = rng.choice(["remove", "replace", "del"])
    if how == "remove" or not rel.collection and how == "replace":
        w.unlink(p, rel, c)
        how = "remove"
    elif how == "replace":
        setattr(w.obj[p], rel.attr, [])
        w.sh.unlink(p, rel, c)
    else:
        delattr(w.obj[p], rel.attr)
        w.sh.unlink(p, rel, c)
    adder = rng.choice(["add", "add_all"])
    hist = [["attach", p, rel.attr, c], [how, p, rel.attr, c], [adder, c], ["flush"]]
    want = w.sh.closure(c, "save-update")
    with orm.Session(w.eng, expire_on_commit=False) as sess:
        if adder == "add":
            sess.add(w.obj[c])
        else:
            sess.add_all([w.obj[c]])
        sess.flush()
        w.dirty_db = True
        ctx.count("su_checks")
        rows = w.table_names(sess)
        got = w.in_session(sess)
        if rows != want or got != want:
            violation(w, "PRE", "explicitly-added-former-orphan-dropped",
                      "after %s: rows %s, session %s, expected %s" % (hist, sorted(rows), sorted(got), sorted(want)),
                      {"history": hist, "rows": sorted(rows), "session": sorted(got), "expected": sorted(want)})
        sess.rollback()
    ctx.case({"cfg": w.cfg.desc(), "sc": "PRE", "hist": hist}, nontrivial=True)


def _drop_fresh(w, n):
    w.sh.remove_node(n)
    del w.obj[n]


def scenario_pending_ref(w, rng):
    """expire() / refresh() / expire_all() while PENDING objects hang off persistent (or
    other pending) members: the refresh-expire cascade expires the persistent objects it
    reaches, skips pending ones - they stay in the session and are INSERTed - except
    through a delete-orphan relationship, where the pending object is expunged
    (documented: it would be an orphan once the parent's attributes are gone)."""
    from sqlalchemy import inspect, orm

    ctx = w.ctx
    w.reset()
    names = w.random_graph(rng)
    hist = []
    with orm.Session(w.eng, expire_on_commit=False, autoflush=False) as sess:
        persist_all(w, sess, names)
        w.load_all()
        persistent, pending = set(names), set()
        for _ in range(rng.randint(1, 3)):
            x = rng.choice(sorted(persistent | pending))
            rels = [r for r in w.sh.by_cls.get(w.sh.cls_of[x], ()) if not r.virtual]
            if not rels:
                continue
            rel = rng.choice(rels)
            y = w.new(rel.target)
            if not w.can_link(x, rel, y) or w.is_move_of_orphan_tracked(x, rel, y):
                _drop_fresh(w, y)
                continue
            w.link(x, rel, y)
            sess.add(w.obj[y])  # explicit: pending whatever the cascade says
            pending.add(y)
            hist.append(["attach-pending", x, rel.attr, y])
        if not pending:
            sess.rollback()
            return
        how = rng.choice(["expire", "expire", "refresh", "expire_all"])
        x = rng.choice(sorted(persistent))
        hist.append([how, x])
        if how == "expire_all":
            want_expired, want_out = set(persistent), set()
            sess.expire_all()
        else:
            closure = w.sh.refresh_closure(x, pending)
            want_out = closure & pending
            want_expired = (closure & persistent) - ({x} if how == "refresh" else set())
            getattr(sess, how)(w.obj[x])
        ctx.count("ref_checks")
        ctx.count("pending_ref_checks")
        got_in = w.in_session(sess)
        got_expired = {n for n in persistent if inspect(w.obj[n]).expired}
        want_in = (persistent | pending) - want_out
        if got_in != want_in or got_expired != want_expired:
            dropped = sorted((want_in - got_in) & pending)
            # (expire and refresh share the cascade: one mechanism, the call is in the witness)
            mech = "refresh-expire-cascade-drops-pending" if dropped else "refresh-expire-cascade-with-pending"
            violation(w, "PEND-REF", mech,
                      "after %s: session %s expected %s; expired %s expected %s" % (
                          hist, sorted(got_in), sorted(want_in), sorted(got_expired), sorted(want_expired)),
                      {"history": hist, "pending": sorted(pending), "session": sorted(got_in), "expected": sorted(want_in)})
        else:
            sess.flush()
            rows = w.table_names(sess)
            if rows != want_in:
                violation(w, "PEND-REF", "refresh-expire-cascade-pending-not-inserted",
                          "after %s + flush: rows %s, expected %s" % (hist, sorted(rows), sorted(want_in)),
                          {"history": hist, "rows": sorted(rows), "expected": sorted(want_in)})
            if want_out or len(want_expired) > 1:
                ctx.count("nontrivial_closures")
        sess.rollback()
    ctx.case({"cfg": w.cfg.desc(), "sc": "PEND-REF", "hist": hist, "g": w.sh.describe()}, nontrivial=True)


def scenario_pending_orphan(w, rng):
    """a PENDING value with 1-3 levels of pending descendants is removed from / replaced on
    a delete-orphan relationship (collection, one-to-one or single-parent many-to-one) of
    an object that is in a session, between two flushes: the pending orphan is expunged
    (documented) together with exactly what its expunge cascade reaches; the rest stays
    pending and is INSERTed."""
    from sqlalchemy import orm

    ctx = w.ctx
    rel = rng.choice(w.orphan_rels)
    w.reset()
    hist = []
    with orm.Session(w.eng, expire_on_commit=False) as sess:
        x = w.new(rel.cls)
        sess.add(w.obj[x])
        if rng.random() < 0.5:
            sess.flush()
            hist.append(["flush-owner", x])
        y = w.new(rel.target)
        subtree, frontier = [y], [y]
        for level in range(rng.randint(1, 2)):
            nxt = []
            for n in frontier:
                fwd = [r for r in w.sh.by_cls.get(w.sh.cls_of[n], ()) if not r.virtual
                       and r.shape in ("o2m", "o2o", "m2m") and not (r is w.sh.rev(rel))]
                for r in fwd:
                    for _ in range(rng.randint(1, 2) if r.collection else 1):
                        z = w.new(r.target)
                        if w.can_link(n, r, z):
                            w.link(n, r, z)
                            nxt.append(z)
                            subtree.append(z)
                        else:
                            _drop_fresh(w, z)
            frontier = nxt
        if not w.can_link(x, rel, y):
            sess.rollback()
            return
        w.link(x, rel, y)
        sess.add_all([w.obj[n] for n in subtree])
        hist.append(["attach-pending-subtree", x, rel.attr, subtree])
        members = w.in_session(sess)
        how = rng.choice(["remove", "replace", "replace-new", "del"])
        joined = set()
        if how == "remove":
            w.unlink(x, rel, y)
        elif how == "del":
            delattr(w.obj[x], rel.attr)
            w.sh.unlink(x, rel, y)
        else:
            y2 = None
            if how == "replace-new":
                y2 = w.new(rel.target)
            if rel.collection:
                setattr(w.obj[x], rel.attr, [w.obj[y2]] if y2 else [])
                w.sh.unlink(x, rel, y)
                if y2:
                    w.sh.link(x, rel, y2)
            else:
                setattr(w.obj[x], rel.attr, w.obj[y2] if y2 else None)
                w.sh.unlink(x, rel, y)
                if y2:
                    w.sh.link(x, rel, y2)
            if y2 and "save-update" in rel.cascade:
                joined.add(y2)
        hist.append([how, x, rel.attr, y])
        out = w.sh.closure(y, "expunge") & members
        want = (members - out) | joined
        got = w.in_session(sess)
        ctx.count("pending_orphan_checks")
        if got != want:
            stay = sorted(got - want)
            site = "collection" if rel.collection else "scalar"  # remove listener / set listener
            mech = "pending-orphan-%s-expunge-cascade-not-applied" % site if stay and not (want - got) \
                else "pending-orphan-%s-expunge-cascade" % site
            violation(w, "PEND-ORPH", mech,
                      "after %s: session %s, expected %s (expunge closure of the orphan %s)" % (
                          hist, sorted(got), sorted(want), sorted(out)),
                      {"history": hist, "session": sorted(got), "expected": sorted(want)})
        else:
            sess.flush()
            rows = w.table_names(sess)
            if rows != want:
                violation(w, "PEND-ORPH", "pending-orphan-flush-rows",
                          "after %s + flush: rows %s, expected %s" % (hist, sorted(rows), sorted(want)),
                          {"history": hist, "rows": sorted(rows), "expected": sorted(want)})
            if len(out) > 1:
                ctx.count("nontrivial_closures")
        sess.rollback()
    ctx.case({"cfg": w.cfg.desc(), "sc": "PEND-ORPH", "hist": hist, "g": w.sh.describe()}, nontrivial=len(subtree) > 1)


def scenario_exp(w, rng):
    from sqlalchemy import orm

    ctx = w.ctx
    w.reset()
    names = w.random_graph(rng)
    hist = []
    nontrivial = False
    with orm.Session(w.eng, expire_on_commit=False) as sess:
        persist_all(w, sess, names)
        w.load_all()
        for step in range(rng.randint(1, 2)):
            members = sorted(w.in_session(sess))
            if not members:
                break
            x = rng.choice(members)
            closure = w.sh.closure(x, "expunge")
            hist.append(["expunge", x])
            sess.expunge(w.obj[x])
            ctx.count("exp_checks")
            got = w.in_session(sess)
            want = set(members) - closure
            if got != want:
                violation(w, "EXP", "expunge-cascade",
                          "after %s the session holds %s, expected %s (closure %s)" % (hist, sorted(got), sorted(want), sorted(closure)),
                          {"history": hist, "session": sorted(got), "expected": sorted(want)})
                break
            if len(closure & set(members)) > 1:
                nontrivial = True
                ctx.count("nontrivial_closures")
        sess.rollback()
    ctx.case({"cfg": w.cfg.desc(), "sc": "EXP", "hist": hist, "g": w.sh.describe()}, nontrivial=nontrivial)


def scenario_ref(w, rng):
    from sqlalchemy import inspect, orm

    ctx = w.ctx
    w.reset()
    names = w.random_graph(rng)
    hist = []
    nontrivial = False
    with orm.Session(w.eng, expire_on_commit=False) as sess:
        persist_all(w, sess, names)
        for step in range(rng.randint(1, 2)):
            w.load_all()
            live = sorted(w.obj)
            if not live:
                break
            x = rng.choice(live)
            how = rng.choice(["expire", "refresh"])
            closure = w.sh.closure(x, "refresh-expire")
            hist.append([how, x])
            if how == "expire":
                sess.expire(w.obj[x])
                want = closure
            else:
                sess.refresh(w.obj[x])
                want = closure - {x}
            ctx.count("ref_checks")
            got = {n for n, o in w.obj.items() if inspect(o).expired}
            if got != want:
                violation(w, "REF", "refresh-expire-cascade-%s" % how,
                          "after %s expired objects %s, expected %s" % (hist, sorted(got), sorted(want)),
                          {"history": hist, "expired": sorted(got), "expected": sorted(want)})
                break
            if len(closure) > 1:
                nontrivial = True
                ctx.count("nontrivial_closures")
        sess.rollback()
    ctx.case({"cfg": w.cfg.desc(), "sc": "REF", "hist": hist, "g": w.sh.describe()}, nontrivial=nontrivial)


def scenario_mrg(w, rng):
    from sqlalchemy import orm

    ctx = w.ctx
    w.reset()
    names = w.random_graph(rng)
    x = rng.choice(names)
    closure = w.sh.closure(x, "merge")
    hist = [["merge", x]]
    if not (closure == w.sh.merge_closure(x) == w.sh.merge_closure(x, True)):
        # which objects merge() skips because it arrived through a backref depends on its
        # traversal order: only graphs where the pruning cannot matter are judged
        ctx.count("mrg_skipped_backref_pruning")
        return
    with orm.Session(w.eng) as other:
        other.merge(w.obj[x])
        ctx.count("mrg_checks")
        got = sorted(o.name for o in other.new)
        if got != sorted(closure):
            violation(w, "MRG", "merge-cascade",
                      "merge(%s) created copies of %s, merge closure is %s" % (x, got, sorted(closure)),
                      {"history": hist, "copies": got, "expected": sorted(closure)})
        elif len(closure) > 1:
            ctx.count("nontrivial_closures")
        other.rollback()
    ctx.case({"cfg": w.cfg.desc(), "sc": "MRG", "hist": hist, "g": w.sh.describe()}, nontrivial=len(closure) > 1)


def run(ctx):
    import warnings

    from sqlalchemy import exc as sa_exc

    warnings.simplefilter("ignore", sa_exc.SAWarning)
    rng = ctx.rng
    reps = ctx.pick({"quick": 2, "thorough": 10})
    for i, cfg in enumerate(all_configs()):
        if not ctx.mine(i):
            continue
        if not ctx.budget_ok():
            break
        w = World(ctx, cfg)
        ctx.count("configs")
        ctx.seen("kinds", cfg.kind)
        for rep in range(reps):
            scenario_su(w, rng)
            scenario_del(w, rng)
            if w.orphan_rels and not w.m2o_orphan:
                for _ in range(3):
                    scenario_orph(w, rng)
                scenario_pre_orphan(w, rng)
                if rep == 0:
                    scenario_orph_targeted(w)
                    scenario_orph_delete_parent(w)
            scenario_pending_ref(w, rng)
            if w.orphan_rels:
                for _ in range(2):
                    scenario_pending_orphan(w, rng)
            scenario_exp(w, rng)
            scenario_ref(w, rng)
            scenario_mrg(w, rng)
        if i % 37 == 0:
            ctx.sample({"config": cfg.desc()})
        w.dispose()
