"""C40 -- loader strategies change how data is loaded, never what.

Workload: a generated mapping zoo (``vf/gen/ormrig_gl.py``: o2m / m2o / m2m / one-to-one /
self-referential / polymorphic targets, with random mapper-level ``lazy=``, ``order_by``
and ``collection_class`` knobs) over a generated population (duplicates, NULL FKs,
empty collections).  For every generated query (filters, any()/has(), explicit joins
that duplicate primary rows, total ORDER BY, LIMIT/OFFSET, DISTINCT, extra column /
entity in the row, aliased root, polymorphic root, yield_per, 2.0-style execute and
legacy Query) optionally in a session that already holds the root objects and / or the target rows
unloaded; ``B.lead`` is a many-to-one that targets the subclass ``Eng`` while its foreign
key references the base table and points at E / Eng / Mgr rows) a relationship tree
of 1..3 nodes and depth <= 2 is drawn and **every**
assignment of {lazy, joined, subquery, selectin, immediate} to its nodes is executed in a
fresh Session, each with one column-option flavour (defer / load_only / undefer /
undefer_group / nested defer / raiseload on untouched paths / ``Load.raiseload('*')``).
``with_expression`` is part of the *query* (present in the baseline too).

Oracle: after the query, the tree is *touched* (plain attribute access: a no-op for
what an eager loader populated, a lazy / deferred load otherwise) and a graph snapshot
that reads only ``__dict__`` is compared with the all-lazy baseline: primary rows
(de-duplicated by the harness in every variant), column values, scalar targets,
collection contents.

Guards (what keeps this from being stricter than the library):
* primary row order is compared only under a total ORDER BY (always ending in the primary
  keys of every FROM entity); LIMIT/OFFSET are generated only together with one;
  with DISTINCT the ORDER BY uses root columns only (and the key of a joined entity only
  when that entity is selected).
* collection order is compared only where the relationship has a total mapper-level
  ``order_by``; set collections and un-ordered relationships compare as multisets.
* rows are de-duplicated by the harness in *every* variant (joined eager loading of a
  collection requires ``Result.unique()`` and legacy Query de-duplicates by itself -
  both documented - so duplicates in primary rows are not part of the comparison).
* documented rejections are held when they raise: yield_per with joined-collection or
  subquery eager loading (InvalidRequestError).  Any other exception in a variant whose
  baseline succeeded is reported.
* ``with_expression`` / ``raiseload('*')`` are generated only on trees that cannot reach
  the same class twice (query-time expressions are by design not refreshed on an
  already-loaded instance, so their value would depend on load order).
* ``innerjoin=True`` is used only on the NOT NULL many-to-one ``E.a``.
* in a preloaded session no nested ``with_expression`` is generated: an instance keeps the
  loader options of the query that first loaded it, so options of a later query reach
  its eager loads but not its lazy loads (by design).

Findings (each with its own mechanism; the lazyload-reverse one was fixed in /repo by
18929db, the subqueryload ones are registered as open known findings; a further
candidate ``deferred-column-load-on-aliased-instance-drops-lazy-loader-options`` is rare:
``a = select(aliased(A)).options(defer(a1.x), lazyload(a1.bs).options(with_expression(B.ex, ..)))``,
then ``a.x`` (deferred load) makes the later lazy load of ``a.bs`` forget the nested
option; with the plain entity it is kept).
Round 3 candidates: ``joined-nested-innerjoin-under-subclass-target:AssertionError`` /
``...:wrong-data`` - ``joinedload(Task.manager).joinedload(Manager.company, innerjoin=True)``
with Manager a joined-inheritance subclass raises AssertionError in
``_splice_nested_inner_join``, or - when another eager join holds an alias of the base
table - splices the inner join into *that* join and loads the wrong related object.
Another rare candidate: ``joined-collection-appender-on-replaced-collection:AttributeError``
(``A.bs`` lazy="joined" at mapper level;
``select(A).options(subqueryload(A.bs), joinedload(A.profile).joinedload(P.a))`` crashes with
"'NoneType' object has no attribute '_sa_appender'" when an A has >= 2 bs).
Fired on the unchanged tree when written (candidate genuine defects;
minimal repros and proposed patches in selftest/C40/proposed_fixes):
* ``subqueryload-m2o-deferred-fk:NoSuchColumnError`` - ``subqueryload()`` of a many-to-one
  whose foreign-key column is deferred / left out by ``load_only`` raises
  NoSuchColumnError; every other strategy loads the same data.
* ``lazyload-adds-reverse-lazyload-conflicting-with-user-option`` - lazy-loading a
  one-to-many whose reverse many-to-one is eager at mapper level raises "Loader strategy
  replacement lazyload(...) is in conflict" as soon as the user gave any option for
  that reverse path (``lazyload(A.bs).joinedload(B.a)``, ``defaultload(A.bs).raiseload(B.a)``).
Also seen (counted as ``baseline_rejected``, reported by C42): a loader option on a
``with_polymorphic`` entity raises ArgumentError when a subclass uses
``polymorphic_load="selectin"``.
"""
from __future__ import annotations

import itertools

META = {
    "id": "C40",
    "level": "exploration",
    "technique": "differential execution of every loader-strategy assignment against an all-lazy baseline, __dict__-only graph snapshots, DBAPI spy proving eager loads were effective",
    "level_text": "Every assignment of 5 strategies over relationship trees of <=3 nodes / depth <=2 is executed for each generated query over generated mappings and data; one column-option flavour per assignment. Equality of primary rows, attribute values and collections with the all-lazy baseline is checked on each.",
    "level_note": "SQLite only. Depth-3 paths, contains_eager, noload, dynamic/write-only relationships and populate_existing are not generated. Order is judged only where SQL defines it (total ORDER BY / total relationship order_by). The baseline itself is the lazy loader: a defect shared by all five strategies is out of reach here (C41/C42 compare against raw SQL / the population).",
    "design_ref": "DESIGN.md section 4, C40",
    "rule": "case = (mapping knobs, query description, relationship tree, assignment, column flavour); non-trivial = the baseline loaded >=1 related object or non-empty collection along the tree; distinct by (query shape, tree, assignment, flavour)",
    "shards": {"quick": 8, "thorough": 16},
    "modes": ["cext"],
    "soft_s": {"quick": 45, "thorough": 600},
    "exhaustive": {"quick": False, "thorough": False},
    "require": ["variants_compared", "eager_variants_no_extra_sql", "ordered_collections_compared",
                "documented_rejections", "primary_order_compared", "limit_queries"],
    "assumptions": ["the lazy loader + attribute access defines the reference result",
                    "SQLite returns rows in ORDER BY order when the ORDER BY is total"],
}

STRATS = ("lazy", "joined", "subquery", "selectin", "immediate")


# --------------------------------------------------------------------------
# generation
# --------------------------------------------------------------------------
def target_of(zoo, owner, name):
    return zoo.rel(owner, name).target


def gen_tree(zoo, rng, root):
    """Relationship tree with 1..3 nodes, depth <= 2, as nested dicts."""
    k = rng.choice([1, 2, 2, 2, 3, 3])
    rootrels = zoo.relnames(root) + zoo.sub_relnames(root)
    r1 = rng.choice(rootrels)
    tree = {r1: {}}
    nodes = 1
    while nodes < k:
        if rng.random() < 0.7:
            # nest under an existing depth-1 node
            parent = rng.choice(list(tree))
            t = target_of(zoo, root, parent)
            cand = [r for r in zoo.relnames(t) + zoo.sub_relnames(t) if r not in tree[parent]]
            if cand:
                tree[parent][rng.choice(cand)] = {}
                nodes += 1
                continue
        cand = [r for r in rootrels if r not in tree]
        if cand:
            tree[rng.choice(cand)] = {}
            nodes += 1
        else:
            break
    return tree


def tree_classes(zoo, root, tree):
    out = []
    for name, sub in tree.items():
        t = target_of(zoo, root, name)
        out.append(t)
        out.extend(tree_classes(zoo, t, sub))
    return out


PRED_COLS = {
    "A": [("x", "int"), ("grp", "int"), ("name", "str"), ("parent_id", "int")],
    "B": [("pos", "int"), ("val", "str"), ("a_id", "int"), ("lead_id", "int")],
    "C": [("q", "int"), ("b_id", "int")],
    "T": [("label", "str")],
    "P": [("bio", "str"), ("a_id", "int")],
    "E": [("ename", "str"), ("a_id", "int"), ("type", "str")],
}
STRV = {"name": ["ann", "bob", "", "Zed"], "val": ["u", "v", "w"], "label": ["red", "blue", "green"],
        "bio": ["x", "y"], "ename": ["kim", "lee", "max"], "type": ["e", "eng", "mgr"]}
ANYHAS = {
    "A": [("bs", "any", "B"), ("tags", "any", "T"), ("children", "any", "A"), ("parent", "has", "A"),
          ("profile", "has", "P"), ("es", "any", "E")],
    "B": [("a", "has", "A"), ("cs", "any", "C")],
    "C": [("b", "has", "B")],
    "T": [("owners", "any", "A")],
    "P": [("a", "has", "A")],
    "E": [("a", "has", "A")],
}


def gen_pred(rng, cname, depth=0):
    base = "E" if cname in ("Eng", "Mgr") else cname
    r = rng.random()
    if depth < 2 and r < 0.2:
        return {"op": rng.choice(["and", "or"]), "args": [gen_pred(rng, cname, depth + 1), gen_pred(rng, cname, depth + 1)]}
    if depth < 2 and r < 0.27:
        return {"op": "not", "args": [gen_pred(rng, cname, depth + 1)]}
    if depth < 1 and r < 0.45:
        rel, kind, t = rng.choice(ANYHAS[base])
        inner = gen_pred(rng, t, 2) if rng.random() < 0.7 else None
        return {"op": kind, "rel": rel, "target": t, "inner": inner}
    col, ty = rng.choice(PRED_COLS[base])
    if ty == "int":
        op = rng.choice(["gt", "eq", "ne", "isnull", "in", "le"])
        v = rng.choice([0, 1, 1, 2, 3])
        if op == "in":
            v = sorted(set(rng.choice([0, 1, 2, 3, 5, 7]) for _ in range(rng.randint(1, 3))))
    else:
        op = rng.choice(["eq", "ne", "isnull", "in"])
        v = rng.choice(STRV[col])
        if op == "in":
            v = sorted(set(rng.choice(STRV[col]) for _ in range(rng.randint(1, 2))))
    return {"op": op, "col": col, "v": v}


def build_pred(sa, zoo, ent, cname, p):
    op = p["op"]
    if op in ("and", "or"):
        f = sa.and_ if op == "and" else sa.or_
        return f(*[build_pred(sa, zoo, ent, cname, a) for a in p["args"]])
    if op == "not":
        return sa.not_(build_pred(sa, zoo, ent, cname, p["args"][0]))
    if op in ("any", "has"):
        attr = getattr(ent, p["rel"])
        tcls = zoo.cls[p["target"]]
        if p["inner"] is None:
            return getattr(attr, op)()
        if p["target"] == "A" and cname == "A":
            # self-referential any()/has(): the criterion is written against the plain
            # class and is aliased by the comparator
            return getattr(attr, op)(build_pred(sa, zoo, tcls, "A", p["inner"]))
        return getattr(attr, op)(build_pred(sa, zoo, tcls, p["target"], p["inner"]))
    c = getattr(ent, p["col"])
    v = p.get("v")
    if op == "gt":
        return c > v
    if op == "le":
        return c <= v
    if op == "eq":
        return c == v
    if op == "ne":
        return c != v
    if op == "isnull":
        return c.is_(None)
    if op == "in":
        return c.in_(v)
    raise AssertionError(op)


JOINS = {
    "A": ["bs", "tags", "children", "es", "profile"],
    "B": ["a", "cs"],
    "C": ["b"],
    "T": ["owners"],
    "P": ["a"],
    "E": ["a"],
}


def gen_query(zoo, rng):
    root = rng.choice(["A", "A", "A", "A", "B", "B", "C", "T", "P", "E", "E", "Eng", "Mgr"])
    base = "E" if root in ("Eng", "Mgr") else root
    q = {"root": root, "alias": rng.random() < 0.15, "where": None, "join": None, "order": None,
         "limit": None, "offset": None, "distinct": False, "yield_per": None, "api": "execute",
         "extra": None, "expr_root": False, "expr_nested": False, "wpoly": False}
    if rng.random() < 0.6:
        q["where"] = gen_pred(rng, root)
    if rng.random() < 0.3:
        rel = rng.choice(JOINS[base])
        q["join"] = {"rel": rel, "outer": rng.random() < 0.4, "target": target_of(zoo, base, rel),
                     "where": None}
        if rng.random() < 0.5 and not (q["join"]["target"] == "A" and base == "A"):
            q["join"]["where"] = gen_pred(rng, q["join"]["target"], 2)
    if rng.random() < 0.75:
        cols = [c for c, _ in PRED_COLS[base]]
        n = rng.randint(0, 2)
        order = [{"on": "root", "col": rng.choice(cols), "desc": rng.random() < 0.4} for _ in range(n)]
        q["distinct"] = rng.random() < 0.15
        if q["join"] and not q["distinct"] and rng.random() < 0.5:
            jt = q["join"]["target"]
            jb = "E" if jt in ("Eng", "Mgr") else jt
            order.insert(rng.randint(0, len(order)),
                         {"on": "join", "col": rng.choice([c for c, _ in PRED_COLS[jb]]), "desc": rng.random() < 0.4})
        q["order"] = order
        q["pk_desc"] = rng.random() < 0.3
        if rng.random() < 0.5:
            q["limit"] = rng.randint(1, 5)
            if rng.random() < 0.5:
                q["offset"] = rng.randint(0, 3)
        elif rng.random() < 0.4:
            q["offset"] = rng.randint(1, 2)
    else:
        q["distinct"] = rng.random() < 0.1
    r = rng.random()
    if r < 0.15:
        q["extra"] = "col"       # select(R, R.<col>)
    elif r < 0.25 and q["join"]:
        q["extra"] = "entity"    # select(R, J)
    elif r < 0.30:
        q["extra"] = "col_first"  # select(R.<col>, R)
    q["api"] = rng.choice(["execute", "execute", "scalars", "query"])
    if q["extra"] and q["api"] == "scalars":
        q["api"] = "execute"
    if rng.random() < 0.12:
        q["yield_per"] = rng.choice([1, 2, 3])
    if base == "E" and root == "E" and rng.random() < 0.3:
        q["wpoly"] = True
    # the session may already hold the root objects with every relationship unloaded
    # (exercises population of *existing* instances)
    q["preload"] = rng.random() < 0.35
    # ... and / or the rows the tree's depth-1 relationships point at (a many-to-one lazy
    # or immediate load is then served from the identity map)
    q["preload_targets"] = rng.random() < 0.35
    return q


def tree_recurs(zoo, root, tree):
    """True when the tree can reach the root's class (or any class twice)."""
    base = "E" if root in ("Eng", "Mgr") else root
    seen = [base] + ["E" if c in ("Eng", "Mgr") else c for c in tree_classes(zoo, base, tree)]
    return len(seen) != len(set(seen))


FLAVOURS = ("none", "defer_root", "load_only_root", "undefer_root", "defer_nested", "load_only_nested",
            "raise_untouched", "raise_star", "raise_nested_untouched", "none")


class Plan:
    """Everything fixed for one query: statement pieces built per execution (fresh
    aliased objects are fine; the description is what is hashed)."""


def build_options(orm, zoo, rootent, rootname, tree, assign, style, flavour, rng_choices, q):
    """Loader options for one assignment.  ``assign`` maps path tuples to strategies."""
    fn = {"lazy": orm.lazyload, "joined": orm.joinedload, "subquery": orm.subqueryload,
          "selectin": orm.selectinload, "immediate": orm.immediateload}
    base = "E" if rootname in ("Eng", "Mgr") else rootname
    opts = []
    first_nested_done = [False]

    def nested_extra(tname, tcls, path):
        """column options on the target of the first depth-1 path"""
        extra = []
        if len(path) == 1 and not first_nested_done[0]:
            first_nested_done[0] = True
            tb = "E" if tname in ("Eng", "Mgr") else tname
            cols = [c for c, _ in PRED_COLS[tb]]
            if flavour == "defer_nested":
                extra.append(orm.defer(getattr(tcls, cols[rng_choices[0] % len(cols)])))
            elif flavour == "load_only_nested":
                extra.append(orm.load_only(getattr(tcls, cols[rng_choices[0] % len(cols)])))
            elif flavour == "raise_nested_untouched" and not tree_recurs(zoo, rootname, tree):
                sub = tree_get(tree, path)
                cand = [r for r in zoo.relnames(tb) if r not in sub]
                if cand:
                    extra.append(orm.raiseload(getattr(tcls, cand[rng_choices[1] % len(cand)])))
            if q["expr_nested"] and tname == "B":
                extra.append(orm.with_expression(tcls.expr, tcls.pos * 2 + 1))
        return extra

    def rec(ent, cname, sub, prefix):
        out = []
        for name, subsub in sub.items():
            path = prefix + (name,)
            st = assign[path]
            ri = zoo.rel(cname, name)
            attr = getattr(ent, name)
            kw = {}
            if st == "joined" and not ri.nullable_fk and not ri.uselist and rng_choices[2] % 2:
                kw["innerjoin"] = True
            if st == "selectin" and len(rng_choices) > 3:
                # small IN chunks: the loader has to merge the rows of several statements
                cs = (None, 1, 2, 3, 4)[(rng_choices[3] + len(path)) % 5]
                if cs is not None:
                    kw["chunksize"] = cs
            o = fn[st](attr, **kw)
            tcls = zoo.cls[ri.target]
            children = rec(tcls, ri.target, subsub, path)
            extra = nested_extra(ri.target, tcls, path)
            if style == "chain" and len(children) == 1 and not extra and isinstance(children[0], tuple):
                # linear chain: joinedload(A.bs).selectinload(B.cs)
                cst, cattr, ckw = children[0]
                o = getattr(o, {"lazy": "lazyload", "joined": "joinedload", "subquery": "subqueryload",
                                "selectin": "selectinload", "immediate": "immediateload"}[cst])(cattr, **ckw)
                out.append(o)
                continue
            children = [fn[c[0]](c[1], **c[2]) if isinstance(c, tuple) else c for c in children]
            if children or extra:
                o = o.options(*children, *extra)
                out.append(o)
            elif style == "chain" and prefix:
                out.append((st, attr, kw))   # let the parent chain it
            else:
                out.append(o)
        return out

    top = rec(rootent, base, tree, ())
    top = [fn[c[0]](c[1], **c[2]) if isinstance(c, tuple) else c for c in top]
    opts.extend(top)
    cols = [c for c, _ in PRED_COLS[base]]
    if flavour == "defer_root":
        opts.append(orm.defer(getattr(rootent, cols[rng_choices[0] % len(cols)])))
    elif flavour == "load_only_root":
        names = {cols[rng_choices[0] % len(cols)], cols[rng_choices[1] % len(cols)]}
        opts.append(orm.load_only(*[getattr(rootent, n) for n in sorted(names)]))
    elif flavour == "undefer_root" and base == "A":
        if rng_choices[0] % 2:
            opts.append(orm.undefer(rootent.note))
        else:
            opts.append(orm.Load(rootent).undefer_group("g"))
    elif flavour == "raise_untouched" and not tree_recurs(zoo, rootname, tree):
        cand = [r for r in zoo.relnames(base) if r not in tree]
        if cand:
            opts.append(orm.raiseload(getattr(rootent, cand[rng_choices[1] % len(cand)])))
    elif flavour == "raise_star" and not tree_recurs(zoo, rootname, tree):
        opts.append(orm.Load(rootent).raiseload("*"))
    if q["expr_root"]:
        opts.append(orm.with_expression(rootent.expr, EXPR_ROOT[base](rootent)))
    return opts


EXPR_ROOT = {
    "A": lambda e: e.x * 10 + e.grp,
    "B": lambda e: e.pos * 2 + 1,
}


def tree_get(tree, path):
    for p in path:
        tree = tree[p]
    return tree


def build_pieces(sa, orm, zoo, q):
    """The query description turned into ORM pieces shared by the 2.0 and legacy forms."""
    root = q["root"]
    base = "E" if root in ("Eng", "Mgr") else root
    rcls = zoo.cls[root]
    if q["wpoly"]:
        ent = orm.with_polymorphic(rcls, "*")
    elif q["alias"]:
        ent = orm.aliased(rcls)
    else:
        ent = rcls
    pc = {"ent": ent, "froms": [ent], "jent": None, "join": None, "where": [], "order": None}
    jent = None
    if q["join"]:
        j = q["join"]
        jcls = zoo.cls[j["target"]]
        jb = "E" if j["target"] in ("Eng", "Mgr") else j["target"]
        jent = orm.aliased(jcls) if (jb == base or q["alias"]) else jcls
        pc["froms"].append(jent)
        pc["jent"] = jent
        attr = getattr(ent, j["rel"])
        pc["join"] = (attr.of_type(jent) if jent is not jcls else attr, j["outer"])
        if j["where"]:
            pc["where"].append(build_pred(sa, zoo, jent, j["target"], j["where"]))
    cols = [ent]
    if q["extra"] == "col":
        cols = [ent, getattr(ent, PRED_COLS[base][0][0])]
    elif q["extra"] == "col_first":
        cols = [getattr(ent, PRED_COLS[base][0][0]), ent]
    elif q["extra"] == "entity" and jent is not None:
        cols = [ent, jent]
    pc["cols"] = cols
    if q["where"]:
        pc["where"].append(build_pred(sa, zoo, ent, root, q["where"]))
    if q["order"] is not None:
        ob = []
        for o in q["order"]:
            e = ent if o["on"] == "root" else jent
            c = getattr(e, o["col"])
            ob.append(c.desc() if o["desc"] else c)
        # total: primary keys of every FROM entity close the ORDER BY.  Under DISTINCT a
        # joined entity that is not selected must stay out of the ORDER BY (which of its
        # rows orders a distinct root row is not defined; legacy Query would even add the
        # column to the DISTINCT list)
        for e in pc["froms"]:
            if q["distinct"] and e is not pc["ent"] and not any(c is e for c in cols):
                continue
            ob.append(e.id.desc() if q.get("pk_desc") else e.id)
        pc["order"] = ob
    return pc


def build_statement(sa, pc, q, opts):
    stmt = sa.select(*pc["cols"])
    if pc["join"]:
        stmt = stmt.join(pc["join"][0], isouter=pc["join"][1])
    for w in pc["where"]:
        stmt = stmt.where(w)
    if q["distinct"]:
        stmt = stmt.distinct()
    if pc["order"] is not None:
        stmt = stmt.order_by(*pc["order"])
    if q["limit"] is not None:
        stmt = stmt.limit(q["limit"])
    if q["offset"] is not None:
        stmt = stmt.offset(q["offset"])
    stmt = stmt.options(*opts)
    if q["yield_per"]:
        stmt = stmt.execution_options(yield_per=q["yield_per"])
    return stmt


def build_legacy(s, pc, q, opts):
    """The same query through legacy Query (its own join / filter / order_by / limit path)."""
    lq = s.query(*pc["cols"])
    if pc["join"]:
        lq = lq.join(pc["join"][0], isouter=pc["join"][1])
    for w in pc["where"]:
        lq = lq.filter(w)
    if q["distinct"]:
        lq = lq.distinct()
    if pc["order"] is not None:
        lq = lq.order_by(*pc["order"])
    if q["limit"] is not None:
        lq = lq.limit(q["limit"])
    if q["offset"] is not None:
        lq = lq.offset(q["offset"])
    lq = lq.options(*opts)
    if q["yield_per"]:
        lq = lq.yield_per(q["yield_per"])
    return lq


def is_entity(v):
    return hasattr(v, "__dict__") and "_sa_instance_state" in v.__dict__


def run_variant(sa, orm, R, zoo, engine, spy, q, tree, assign, style, flavour, rc):
    """Execute one assignment in a fresh session.  Returns dict(primary=..., snap=..., ...)
    or dict(error=exception, phase=...).  Only calls into the library are inside the
    ``try`` blocks; harness code is outside so that its bugs crash the shard."""
    pc = build_pieces(sa, orm, zoo, q)
    opts = build_options(orm, zoo, pc["ent"], q["root"], tree, assign, style, flavour, rc, q)
    out = {}
    with orm.Session(engine) as s:
        held = None
        if q.get("preload"):
            pre_cls = zoo.cls["E" if q["root"] in ("Eng", "Mgr") else q["root"]]
            held = s.scalars(sa.select(pre_cls).options(orm.lazyload("*"))).all()
        if q.get("preload_targets"):
            rb = "E" if q["root"] in ("Eng", "Mgr") else q["root"]
            held = [held]
            for name in tree:
                t = zoo.rel(rb, name).target
                tcls = zoo.cls["E" if t in ("Eng", "Mgr") else t]
                held.append(s.scalars(sa.select(tcls).options(orm.lazyload("*"))).all())
        try:
            if q["api"] == "query":
                lq = build_legacy(s, pc, q, opts)
                rows = [tuple(r) if len(pc["cols"]) > 1 else (r,) for r in lq]
            else:
                stmt = build_statement(sa, pc, q, opts)
                if q["api"] == "scalars":
                    res = s.scalars(stmt)
                    rows = [(o,) for o in (res if q["yield_per"] else res.unique())]
                else:
                    res = s.execute(stmt)
                    rows = [tuple(r) for r in (res if q["yield_per"] else res.unique())]
        except Exception as e:
            out["error"], out["phase"] = e, "execute"
            return out
        m0 = spy.mark()
        # harness-side de-duplication, identical in every variant
        prim, seen, roots, others = [], set(), [], []
        for r in rows:
            key = tuple(R.ident(v) if is_entity(v) else ("v", v) for v in r)
            if key in seen:
                continue
            seen.add(key)
            prim.append(key)
            ents = [v for v in r if is_entity(v)]
            if ents:
                roots.append(ents[0])
                others.extend(ents[1:])
        pre = R.graph_snapshot(roots, zoo, tree)
        try:
            R.touch(roots, zoo, tree)
            R.touch(others, zoo, {})
        except Exception as e:
            out["error"], out["phase"] = e, "touch"
            return out
        out["touch_sql"] = len(spy.since(m0, kinds=("execute",)))
        out["primary"] = prim
        out["snap"] = R.graph_snapshot(roots, zoo, tree)
        out["other"] = R.graph_snapshot(others, zoo, {})
        out["pre_loaded"] = sum(len(v["r"]) for v in pre.values())
    return out


def canon_primary(prim, ordered):
    return prim if ordered else sorted(prim, key=repr)


def has_collection_eager(zoo, root, tree, assign, kinds):
    base = "E" if root in ("Eng", "Mgr") else root

    def rec(cname, sub, prefix):
        for name, subsub in sub.items():
            ri = zoo.rel(cname, name)
            p = prefix + (name,)
            if assign[p] in kinds and (ri.uselist or assign[p] == "subquery"):
                return True
            if rec(ri.target, subsub, p):
                return True
        return False

    return rec(base, tree, ())


def run(ctx):
    import random
    import warnings

    import sqlalchemy as sa
    from sqlalchemy import orm

    from vf.gen import ormrig_gl as R
    from vf.mon.dbapi_spy import Spy

    rng = ctx.rng
    n_zoo = ctx.pick({"quick": 3, "thorough": 10})
    n_query = ctx.pick({"quick": 8, "thorough": 30})
    for zi in range(n_zoo):
        if not ctx.budget_ok():
            break
        zoo = R.build_zoo(rng)
        spy = Spy()
        path = ctx.tmppath(".db")
        engine = spy.engine(path)
        zoo.pop_seed = rng.randrange(1 << 30)
        zoo.pop_scale = ctx.pick({"quick": 1, "thorough": 2})
        R.populate(zoo, random.Random(zoo.pop_seed), engine, scale=zoo.pop_scale)
        try:
            for qi in range(n_query):
                if not ctx.budget_ok():
                    break
                q = gen_query(zoo, rng)
                # make sure the documented-rejection and limit classes occur in every shard
                if qi == 0:
                    q["yield_per"] = 2
                    q["api"] = "execute" if q["extra"] else q["api"]
                if qi == 1 and q["order"] is None:
                    q["order"], q["limit"], q["pk_desc"] = [], 2, False
                root = q["root"]
                base = "E" if root in ("Eng", "Mgr") else root
                tree = gen_tree(zoo, rng, base)
                recurs = tree_recurs(zoo, root, tree)
                # a query-time expression is not refreshed on an instance that is already
                # loaded, so its class must be reachable through the explicit path only:
                # no mapper-level eager relationship may target it
                eager_targets = {ri.target for ri in zoo.rels.values() if ri.lazy != "select"}
                if not recurs and base in EXPR_ROOT and base not in eager_targets and rng.random() < 0.5:
                    q["expr_root"] = True
                if (not recurs and base == "A" and "bs" in tree and "B" not in eager_targets
                        and rng.random() < 0.6 and not q["preload"]):
                    # (not in a preloaded session: an instance keeps the loader options of
                    # the query that first loaded it, so a later query's nested
                    # with_expression reaches eager loads but not lazy ones - by design)
                    q["expr_nested"] = True
                one_query(ctx, sa, orm, R, zoo, engine, spy, q, tree, rng, warnings)
        finally:
            engine.dispose()
            zoo.dispose()


def one_query(ctx, sa, orm, R, zoo, engine, spy, q, tree, rng, warnings):
    paths = R.tree_paths(tree)
    root = q["root"]
    ordered = q["order"] is not None
    desc_q = {"q": q, "tree": tree, "knobs": zoo.knobs}
    base_assign = {p: "lazy" for p in paths}
    rc0 = (rng.randrange(1000), rng.randrange(1000), rng.randrange(1000), rng.randrange(1000))
    with warnings.catch_warnings():
        warnings.simplefilter("ignore")
        base = run_variant(sa, orm, R, zoo, engine, spy, q, tree, base_assign, "options", "none", rc0)
    if "error" in base:
        # the all-lazy baseline is rejected: nothing to compare with (harness must not
        # generate these; count them so that it shows)
        ctx.count("baseline_rejected")
        ctx.seen("baseline_rejections", str(base["error"])[:120])
        return
    ctx.count("queries")
    if q["limit"] is not None:
        ctx.count("limit_queries")
    elif q["offset"] is not None:
        ctx.count("offset_only_queries")
    if q.get("preload"):
        ctx.count("preloaded_session_queries")
    if q.get("preload_targets"):
        ctx.count("preloaded_target_queries")
    if any(len(p) == 1 and p[0] in zoo.sub_relnames("E" if root in ("Eng", "Mgr") else root) for p in paths) or \
            any(len(p) == 2 and p[1] == "lead" for p in paths):
        ctx.count("subclass_target_m2o_queries")
    if q["distinct"]:
        ctx.count("distinct_queries")
    if q["join"]:
        ctx.count("join_queries")
    base_prim = canon_primary(base["primary"], ordered)
    related = sum(1 for v in base["snap"].values() for r in v["r"].values() if r)
    nontrivial = related > 0
    # which collections are compared in order
    n_ordered = 0

    def count_ordered(cname, sub):
        nonlocal n_ordered
        for name, subsub in sub.items():
            ri = zoo.rel(cname, name)
            if ri.uselist and ri.total and ri.coll == "list":
                n_ordered += 1
            count_ordered(ri.target, subsub)

    count_ordered("E" if root in ("Eng", "Mgr") else root, tree)
    flavours = list(FLAVOURS)
    rng.shuffle(flavours)
    for vi, combo in enumerate(itertools.product(STRATS, repeat=len(paths))):
        if not ctx.budget_ok():
            break
        assign = dict(zip(paths, combo))
        flavour = flavours[vi % len(flavours)]
        style = "chain" if (vi // 3) % 2 else "options"
        rc = (rng.randrange(1000), rng.randrange(1000), rng.randrange(1000), rng.randrange(1000))
        if any(st == "selectin" for st in combo):
            ctx.count("selectin_variants")
        with warnings.catch_warnings():
            warnings.simplefilter("ignore")
            try:
                var = run_variant(sa, orm, R, zoo, engine, spy, q, tree, assign, style, flavour, rc)
            except sa.exc.SQLAlchemyError as e:
                var = {"error": e, "unexpected": True}
            except sa.exc.DBAPIError as e:  # pragma: no cover
                var = {"error": e, "unexpected": True}
        witness = {"knobs": zoo.knobs, "pop_seed": zoo.pop_seed, "pop_scale": zoo.pop_scale, "query": q, "tree": tree, "assign": {"/".join(p): s for p, s in assign.items()},
                   "flavour": flavour, "style": style, "rc": rc}
        ctx.case({"q": shape_of(q), "tree": tree, "assign": combo, "fl": flavour}, nontrivial=nontrivial)
        ctx.seen("flavours", flavour)
        if "error" in var:
            e = var["error"]
            msg = str(e)
            # documented: yield_per cannot be combined with eager loaders that need
            # uniquing / buffering (joined collections, subquery) - whether they come from
            # the options or from mapper-level lazy= defaults reached through the tree
            documented = bool(q["yield_per"]) and isinstance(e, sa.exc.InvalidRequestError) and "yield_per" in msg
            if documented:
                ctx.count("documented_rejections")
                continue
            mech = classify_error(zoo, root, tree, assign, flavour, e, var.get("phase"))
            ctx.violation(
                mech,
                f"assignment {witness['assign']} flavour={flavour} raised {type(e).__name__} during {var.get('phase')}: "
                f"{msg[:200]} while the all-lazy baseline succeeded",
                dict(witness, error=f"{type(e).__name__}: {msg[:300]}", phase=var.get("phase")),
            )
            continue
        ctx.count("variants_compared")
        if ordered:
            ctx.count("primary_order_compared")
        if n_ordered and nontrivial:
            ctx.count("ordered_collections_compared", n_ordered)
        if all(s != "lazy" for s in combo) and flavour in ("none", "raise_untouched", "undefer_root", "raise_star"):
            # all-eager assignment: touching the tree must not need SQL beyond column loads
            if var["touch_sql"] <= base_touch_floor(var, base):
                ctx.count("eager_variants_no_extra_sql")
        prim = canon_primary(var["primary"], ordered)
        if prim != base_prim:
            kind = "order" if sorted(prim, key=repr) == sorted(base_prim, key=repr) else "rows"
            mech = classify(zoo, root, tree, assign, q)
            ctx.violation(
                f"primary-{kind}-differ:{mech}",
                f"primary result differs from all-lazy baseline: {prim[:6]} vs {base_prim[:6]} "
                f"assign={witness['assign']} flavour={flavour}",
                dict(witness, got=prim, expected=base_prim),
            )
            continue
        if var["snap"] != base["snap"] or var["other"] != base["other"]:
            d = R.diff_snap(base["snap"], var["snap"]) or R.diff_snap(base["other"], var["other"])
            mech = classify(zoo, root, tree, assign, q, d, flavour, rc)
            if q["alias"] and d and all(".expr:" in x for x in d):
                # an instance loaded through an aliased entity loses the nested loader
                # options (here with_expression) for later lazy loads once a deferred
                # column of it has been loaded (refresh resets load_path to the plain
                # mapper path); instances of the plain entity keep them
                mech = "deferred-column-load-on-aliased-instance-drops-lazy-loader-options"
            ctx.violation(
                mech if mech.startswith(("subqueryload-m2o-deferred-fk", "deferred-column-load-on-aliased",
                                         "joined-nested-innerjoin"))
                else f"graph-differ:{mech}",
                f"loaded graph differs from all-lazy baseline: {d[:3]} assign={witness['assign']} flavour={flavour}",
                dict(witness, diff=d),
            )
    if ctx.evaluations % 97 == 1 or len(ctx.samples) < 2:
        ctx.sample({"query": q, "tree": tree, "baseline_primary": base["primary"][:5],
                    "objects_in_snapshot": len(base["snap"])})


def classify_error(zoo, root, tree, assign, flavour, e, phase):
    """Mechanism for a variant that raised while the baseline did not; computed from the
    witness (which strategy sits on which kind of path), not from the message alone."""
    base = "E" if root in ("Eng", "Mgr") else root
    name = type(e).__name__
    msg = str(e)
    info = []   # (path, strategy, RelInfo, parent strategy)

    def rec(cname, sub, prefix, pstrat, prel):
        for rel, subsub in sub.items():
            ri = zoo.rel(cname, rel)
            p = prefix + (rel,)
            info.append((p, assign[p], ri, pstrat, prel))
            rec(ri.target, subsub, p, assign[p], ri)

    rec(base, tree, (), None, None)
    if name == "NoSuchColumnError" and any(st == "subquery" and ri.direction == "m2o" for _, st, ri, _, _ in info):
        return "subqueryload-m2o-deferred-fk:NoSuchColumnError"
    if name == "InvalidRequestError" and "Loader strategy replacement lazyload(" in msg:
        # the lazy loader of a one-to-many adds lazyload(<reverse many-to-one>) when that
        # many-to-one is eager at mapper level; a user option on the same path (from the
        # assignment or from a nested raiseload / column flavour) then "conflicts"
        for p, st, ri, pstrat, prel in info:
            if ri.direction in ("o2m", "o2o"):
                for rname in zoo.relnames(ri.target):
                    rv = zoo.rel(ri.target, rname)
                    if (rv.direction == "m2o" and rv.fk_table == ri.fk_table and rv.fk_col == ri.fk_col
                            and rv.lazy != "select"):
                        return "lazyload-adds-reverse-lazyload-conflicting-with-user-option"
    if name == "AssertionError" and "joined eager loads" in msg:
        # joinedload(<rel to a joined-inheritance subclass>).joinedload(<rel>, innerjoin=True):
        # _splice_nested_inner_join cannot place the inner join inside "(base JOIN sub)"
        return "joined-nested-innerjoin-under-subclass-target:AssertionError"
    if name == "AttributeError" and "_sa_appender" in msg:
        # one attribute of one instance populated by two loaders along two paths of the
        # same query (e.g. subqueryload at the root + mapper-level joined when the
        # instance is reached again through a nested joined path): the joined loader's
        # cached appender points at a collection the other loader has replaced
        return "joined-collection-appender-on-replaced-collection:AttributeError"
    return f"variant-raises:{name}/{phase}"


def base_touch_floor(var, base):
    """An all-eager variant may still emit SQL while touched for *column* loads
    (deferred / polymorphic subclass columns).  The baseline with every relationship
    lazy emits those too, plus one statement per relationship load; so 'no more than
    baseline minus relationship loads' is approximated by: strictly fewer statements
    than the baseline, or zero."""
    return max(0, base["touch_sql"] - 1) if base["touch_sql"] else 0


def shape_of(q):
    return {k: (v if not isinstance(v, dict) else sorted(v)) for k, v in q.items() if k not in ("where",)} | {
        "where": bool(q["where"])}


def deferred_cols(flavour, rc, cname):
    """Column names a column flavour leaves unloaded on class ``cname`` (see build_options)."""
    b = "E" if cname in ("Eng", "Mgr") else cname
    cols = [c for c, _ in PRED_COLS[b]]
    if flavour in ("defer_root", "defer_nested"):
        return {cols[rc[0] % len(cols)]}
    if flavour == "load_only_root":
        return set(cols) - {cols[rc[0] % len(cols)], cols[rc[1] % len(cols)]}
    if flavour == "load_only_nested":
        return set(cols) - {cols[rc[0] % len(cols)]}
    return set()


def classify(zoo, root, tree, assign, q, diff=None, flavour=None, rc=None):
    """Stable mechanism string computed from the witness: the strategy and relationship
    kind of the first path whose target shows a difference (or the set of non-lazy
    strategies in use), plus query features that matter for eager loading."""
    base = "E" if root in ("Eng", "Mgr") else root
    if diff and rc and len(rc) > 2 and rc[2] % 2:
        for p, st in assign.items():
            if len(p) == 2 and st == "joined" and assign[p[:1]] == "joined":
                parent = zoo.rel(base, p[0])
                child = zoo.rel(parent.target, p[1])
                if parent.target in ("Eng", "Mgr") and not child.uselist and not child.nullable_fk:
                    # joinedload(<rel to subclass>).joinedload(<rel>, innerjoin=True): the nested
                    # inner join is spliced into another eager join that holds an alias of the
                    # same base table (or, when there is none, an AssertionError is raised)
                    return "joined-nested-innerjoin-under-subclass-target:wrong-data"
    feats = []
    if q["limit"] is not None or q["offset"] is not None:
        feats.append("limit")
    if q["distinct"]:
        feats.append("distinct")
    if q["join"]:
        feats.append("join")
    if q["yield_per"]:
        feats.append("yield_per")
    strat = sorted({s for s in assign.values() if s != "lazy"}) or ["lazy-flavour"]
    field = None
    if diff:
        first = diff[0]
        if "." in first.split(":")[1 if first.count(":") else 0]:
            pass
        # "A:1.bs: [...] != [...]" -> attribute name
        try:
            field = first.split(": ")[0].split(".", 1)[1]
        except Exception:
            field = None
    if field:
        # the strategy assigned to a path ending in that attribute
        for p, s in assign.items():
            if p[-1] == field:
                ri = None
                cname = base
                for name in p:
                    ri = zoo.rel(cname, name)
                    cname = ri.target
                strat = [s]
                feats.insert(0, ri.direction)
                if s == "subquery" and ri.direction == "m2o" and flavour and rc:
                    owner = base if len(p) == 1 else zoo.rel(base, p[0]).target
                    where = ("defer_root", "load_only_root") if len(p) == 1 else ("defer_nested", "load_only_nested")
                    if flavour in where and ri.fk_col in deferred_cols(flavour, rc, owner):
                        # same root cause as the NoSuchColumnError form: the parent row lacks
                        # the foreign key column; here another alias of the same table is in
                        # the row and its column is picked up instead
                        return "subqueryload-m2o-deferred-fk:wrong-target"
                break
        else:
            feats.insert(0, "column")
    return "+".join(strat) + ("/" + ",".join(feats) if feats else "")


def replay(witness, path=":memory:", verbose=True):
    """Re-run one witness (baseline + the variant) outside the harness:
    ``python -c "import json; from vf.props import c40; c40.replay(json.load(open(F))['witnesses'][0]['witness'])"``"""
    import random
    import warnings

    import sqlalchemy as sa
    from sqlalchemy import orm

    from vf.gen import ormrig_gl as R
    from vf.mon.dbapi_spy import Spy

    w = witness
    zoo = R.build_zoo(random.Random(0), knobs=w["knobs"])
    spy = Spy()
    engine = spy.engine(path, poolclass=sa.pool.StaticPool)
    R.populate(zoo, random.Random(w["pop_seed"]), engine, scale=w["pop_scale"])
    q, tree = w["query"], w["tree"]
    assign = {tuple(k.split("/")): v for k, v in w["assign"].items()}
    base_assign = {p: "lazy" for p in assign}
    warnings.simplefilter("ignore")
    base = run_variant(sa, orm, R, zoo, engine, spy, q, tree, base_assign, "options", "none", (0, 0, 0))
    m = spy.mark()
    var = run_variant(sa, orm, R, zoo, engine, spy, q, tree, assign, w["style"], w["flavour"], tuple(w["rc"]))
    if verbose:
        for e in spy.since(m, kinds=("execute",)):
            print("SQL:", e.sql.replace("\n", " "), e.params)
        print("BASE:", base.get("error") or base["primary"])
        print("VAR :", var.get("error") or var["primary"])
        if "snap" in base and "snap" in var:
            print("DIFF:", R.diff_snap(base["snap"], var["snap"], limit=20))
    return zoo, engine, base, var
