"""C41 -- ORM queries return the rows their relational meaning specifies.

A query is first generated as a *description* (plain dicts: entities with the
relationship each one is joined through, inner/outer, aliased, of_type; a predicate tree
with comparisons, any()/has()/contains(), object comparison, IN-subquery, EXISTS,
with_parent; entity / column / aggregate / correlated scalar subquery select list;
GROUP BY + HAVING; DISTINCT; root taken from a subquery or a UNION).  Two **separate**
translators consume the description:

* ``OrmTx``  -> a SQLAlchemy ORM statement (2.0 ``select`` or legacy ``Query``) written
  with relationships, ``aliased``, ``of_type``, comparators ...;
* ``SqlTx``  -> plain SQL text over table and column names (explicit join conditions,
  explicit EXISTS, explicit discriminator criteria), executed through a raw ``sqlite3``
  connection on the same file.  It never sees the ORM statement.

Oracle: the multiset of ORM rows (entity -> (class name, pk) or None; scalars as values)
equals the multiset of reference rows; ``count()`` over the statement and ``exists()``
agree with the number of rows returned.

Join chains have 0-3 links, each inner / LEFT OUTER / FULL OUTER; a statement may have a
second, independent FROM root (present through the select list only) with joins hanging
off it; of the occurrences of one class at most one - any one - is un-aliased.  LIMIT /
OFFSET / Query.slice() are generated *without* ORDER BY: the rows returned must then be
rows of the unsliced reference result and exactly as many as LIMIT/OFFSET leave, and
count() / exists() / first() / one_or_none() must agree with that number (including
LIMIT 0 and an OFFSET past the end).

Guards: no ORDER BY is generated (row order is left open by SQL), rows are compared as
multisets; legacy ``Query.first()`` is not judged under LIMIT 0 (it applies its own
LIMIT 1, as documented); exists() is not judged for DISTINCT + LIMIT/OFFSET (SQLite ignores
DISTINCT inside EXISTS); FULL OUTER JOIN is not generated through an association table,
with of_type, or together with a second FROM root; GROUP BY is always on the primary key of
the grouped entity; aggregates are COUNT / SUM / MIN / MAX over integer columns (no
float formatting); ``contains()`` / object comparison use persistent objects fetched in
the same session; ``many_to_one != obj`` is read with the object semantics the comparator
implements on purpose (``fk != pk OR fk IS NULL``), the docstring leaves it open.

Candidate genuine defects this check reports on the unchanged tree (round 2; repros in
the final report, proposed patches in selftest/C41/proposed/):
* ``explicit-left-join-spliced-onto-aliased-same-class`` - ``select(a1.id, A.id, B.id, b2.id)
  .join(a1.bs).join(A.bs.of_type(b2))`` renders ``JOIN b AS b_1 ON a_1.id = b_1.a_id, a``.
* ``with-polymorphic-entity-loses-join-with-explicit-froms`` - ``select(B, E).join(B.a)`` with E
  mapped with_polymorphic="*" renders ``FROM b JOIN a ..., e, eng, mgr`` (cartesian).
* ``legacy-exists-drops-column-only-from-root`` - ``Query.exists()`` drops a FROM root that is
  present through the columns only (``query(A, T).select_from(A)...``).
* ``result-first-one-treat-null-entity-row-as-no-row`` - ``execute(select(C).select_from(B)
  .outerjoin(B.cs)).first()`` is None when the first row's entity is None; one_or_none() /
  one() likewise take such a row for "no row".
* ``subqueryload-embedded-query-loses-second-from-root:OperationalError`` -
  ``select(B, C).select_from(B).where(C.b.has()).options(subqueryload(B.cs))``.

Fired on the unchanged tree when written (fixed in /repo by 667b36e; proposed patch in
selftest/C41/proposed_fixes): ``legacy-exists-raises:explicit-select_from-not-first-column-entity``
- ``Query.exists()`` adds ``select_from(<entity of the first column>)`` to a query that
already has ``select_from(<other entity>)`` plus two joins and then fails with "Can't
identify which entity in which to assign the left side of this join", although the
query itself, ``count()`` and the 2.0 ``select(...).exists()`` work.
"""
from __future__ import annotations

from collections import Counter

META = {
    "id": "C41",
    "level": "exploration",
    "technique": "differential execution: ORM statement vs plain SQL produced by an independent translator from the same query description, raw sqlite3 as reference executor",
    "level_text": "Generated ORM selects (joins along relationships incl. m2m / self-referential / polymorphic of_type, aliased entities, any/has/contains, IN / EXISTS / scalar subqueries, entities from subqueries and unions, GROUP BY with entities and aggregates, with_parent, select_from, legacy Query) over generated mappings and data with NULL FKs and empty / duplicate associations; multiset equality with the reference rows, plus count()/exists() agreement.",
    "level_note": "SQLite only. The reference translator is the trusted base (about 200 lines, one clause per construct). No ORDER BY/LIMIT (C18), no window functions, CTEs or lateral joins; aggregates over integers only.",
    "design_ref": "DESIGN.md section 4, C41",
    "rule": "case = (mapping knobs, query description); non-trivial = the reference query returns >=1 row and the description has >=2 entities or a relationship predicate / subquery; distinct by description",
    "shards": {"quick": 8, "thorough": 16},
    "modes": ["cext"],
    "soft_s": {"quick": 45, "thorough": 600},
    "exhaustive": {"quick": False, "thorough": False},
    "require": ["queries_compared", "rows_compared", "count_checks", "exists_checks", "nonempty_results",
                "first_checks", "one_or_none_checks", "sliced_queries", "slice_empties_result", "full_join_queries",
                "queries_with_relationship_predicate", "queries_with_outer_join"],
    "assumptions": ["SqlTx (reference translator) encodes the relational meaning of each description construct",
                    "sqlite3 evaluates the reference SQL correctly"],
}

COLS = {
    "A": [("x", "int"), ("grp", "int"), ("name", "str")],
    "B": [("pos", "int"), ("val", "str")],
    "C": [("q", "int")],
    "T": [("label", "str")],
    "P": [("bio", "str")],
    "E": [("ename", "str")],
    "Eng": [("ename", "str"), ("lang", "str")],
    "Mgr": [("ename", "str"), ("level", "int")],
}
INTCOLS = {c: [n for n, t in v if t == "int"] for c, v in COLS.items()}
STRV = {"name": ["ann", "bob", "", "Zed"], "val": ["u", "v", "w"], "label": ["red", "blue", "green"],
        "bio": ["x", "y"], "ename": ["kim", "lee", "max"], "lang": ["py", "c"]}
TABLE = {"A": "a", "B": "b", "C": "c", "T": "t", "P": "p", "E": "e", "Eng": "e", "Mgr": "e"}
TYPE2CLS = {"e": "E", "eng": "Eng", "mgr": "Mgr"}
SUBS = {"E": ["e", "eng", "mgr"], "Eng": ["eng"], "Mgr": ["mgr"]}


def fam(c):
    return "E" if c in ("Eng", "Mgr") else c


# --------------------------------------------------------------------------
# description generator
# --------------------------------------------------------------------------
def gen_cmp(rng, cname, e):
    col, ty = rng.choice(COLS[cname])
    if ty == "int":
        op = rng.choice(["gt", "eq", "ne", "isnull", "in", "le", "notnull"])
        v = rng.choice([0, 1, 1, 2, 3])
        if op == "in":
            v = sorted({rng.choice([0, 1, 2, 3, 5, 7]) for _ in range(rng.randint(1, 3))})
    else:
        op = rng.choice(["eq", "ne", "isnull", "in", "notnull"])
        v = rng.choice(STRV[col])
        if op == "in":
            v = sorted({rng.choice(STRV[col]) for _ in range(rng.randint(1, 2))})
    return {"op": op, "e": e, "col": col, "v": v}


KWV = {"x": [0, 1, 2, 3, 5], "grp": [0, 1, 2], "pos": [0, 1, 2, 3], "q": [0, 1, 2, 7], "level": [1, 2]}


def gen_kw(rng, tcls):
    cols = list(COLS[tcls])
    rng.shuffle(cols)
    kw = {}
    for col, ty in cols[: rng.randint(1, 3)]:
        kw[col] = rng.choice(KWV[col]) if ty == "int" else rng.choice(STRV[col])
    return kw


def m2m_pred(zoo, rng, pop, cls):
    """A predicate on entity 0 that goes through its many-to-many relationship."""
    rel = "tags" if cls == "A" else "owners"
    t = zoo.rel(cls, rel).target
    r = rng.random()
    if r < 0.2:
        p = {"op": rng.choice(["empty", "nonempty"]), "e": 0, "rel": rel}
    elif r < 0.4:
        p = {"op": "any", "e": 0, "rel": rel, "inner": None, "kw": gen_kw(rng, t)}
    elif r < 0.5:
        p = {"op": "any", "e": 0, "rel": rel, "inner": None}
    else:
        p = {"op": "any", "e": 0, "rel": rel, "inner": gen_pred(zoo, rng, [{"cls": t}], pop, 2, allow_rel=False)}
    if rng.random() < 0.35:
        p = {"op": "not", "args": [p]}
    return p


def gen_pred(zoo, rng, ents, pop, depth=0, allow_rel=True, conj=True):
    """Predicate over the entity list ``ents`` (dicts with "cls").  ``conj`` is True while
    the position is reachable from the top through AND only."""
    r = rng.random()
    if depth < 2 and r < 0.22:
        op = rng.choice(["and", "or"])
        return {"op": op,
                "args": [gen_pred(zoo, rng, ents, pop, depth + 1, allow_rel, conj and op == "and") for _ in range(2)]}
    if depth < 2 and r < 0.30:
        return {"op": "not", "args": [gen_pred(zoo, rng, ents, pop, depth + 1, allow_rel, False)]}
    e = rng.randrange(len(ents))
    cname = ents[e]["cls"]
    if allow_rel and r < 0.62:
        rels = zoo.relnames(fam(cname))
        rel = rng.choice(rels)
        ri = zoo.rel(fam(cname), rel)
        k = rng.random()
        tpk = [row["id"] for row in pop[TABLE[ri.target]]]
        if k < 0.12 and ri.uselist:
            # collection == None / != None
            return {"op": rng.choice(["empty", "nonempty"]), "e": e, "rel": rel}
        if k < 0.5:
            inner = None
            r2 = rng.random()
            if r2 < 0.3:
                # keyword form any(col=v, ...) / has(col=v, ...): 1-3 keywords, no positional
                return {"op": "has" if not ri.uselist else "any", "e": e, "rel": rel, "inner": None,
                        "kw": gen_kw(rng, ri.target)}
            if r2 < 0.85:
                inner = gen_pred(zoo, rng, [{"cls": ri.target}], pop, 2, allow_rel=False)
            return {"op": "has" if not ri.uselist else "any", "e": e, "rel": rel, "inner": inner}
        # many-to-many contains() joins an alias of the association table into the main
        # body of the query: documented not to work under OR / NOT, so only generated in
        # plain AND position
        if k < 0.65 and ri.uselist and tpk and (ri.direction != "m2m" or conj):
            return {"op": "contains", "e": e, "rel": rel, "pk": rng.choice(tpk)}
        if k < 0.8 and not ri.uselist and ri.direction == "m2o":
            return {"op": rng.choice(["eq_obj", "ne_obj"]), "e": e, "rel": rel,
                    "pk": rng.choice(tpk + [None]) if tpk else None}
        if k < 0.9:
            inner = gen_pred(zoo, rng, [{"cls": ri.target}], pop, 2, allow_rel=False)
            return {"op": "exists", "e": e, "rel": rel, "inner": inner, "neg": rng.random() < 0.3}
        # IN (subquery) over the primary key of this entity: ids of rows that have a
        # related row satisfying inner -- only for one-to-many (fk on the target)
        if ri.direction == "o2m":
            inner = gen_pred(zoo, rng, [{"cls": ri.target}], pop, 2, allow_rel=False)
            return {"op": "in_subq", "e": e, "rel": rel, "inner": inner, "neg": rng.random() < 0.35}
    return gen_cmp(rng, cname, e)


def gen_desc(zoo, rng, pop):
    root = rng.choice(["A", "A", "A", "B", "B", "C", "T", "P", "E", "Eng", "Mgr"])
    ents = [{"cls": root, "alias": rng.random() < 0.25}]
    d = {"ents": ents, "root_src": None, "where": None, "select": None, "agg": None, "scalar_subq": None,
         "distinct": False, "api": rng.choice(["select", "select", "query"]), "select_from_last": False,
         "with_parent": None}
    have_cross = False
    for _ in range(rng.choice([0, 1, 1, 2, 2, 3])):
        if not have_cross and rng.random() < 0.12:
            # a second, independent FROM root (cartesian with the first chain); later
            # joins may hang off it
            have_cross = True
            ents.append({"cls": rng.choice(["A", "A", "B", "C", "T", "P", "E"]), "via": None, "cross": True,
                         "alias": rng.random() < 0.3})
            continue
        src = rng.randrange(len(ents))
        sc = ents[src]["cls"]
        rel = rng.choice(zoo.relnames(fam(sc)))
        ri = zoo.rel(fam(sc), rel)
        tcls = ri.target
        if tcls == "E" and rng.random() < 0.4:
            tcls = rng.choice(["Eng", "Mgr"])   # of_type
        en = {"cls": tcls, "via": [src, rel], "outer": rng.random() < 0.4,
              "alias": rng.random() < 0.3, "of_type": tcls != ri.target}
        # FULL OUTER JOIN on any position of the chain (not through an association table
        # and not narrowed by of_type: what a full join means there is left open)
        if ri.direction != "m2m" and tcls == ri.target and rng.random() < 0.2:
            en["full"] = True
        ents.append(en)
    if have_cross:
        for en in ents:
            en.pop("full", None)   # (comma-separated FROM + FULL JOIN: grouping would matter)
    # of the occurrences of one class (family) at most one may stay un-aliased - any one
    by_fam = {}
    for i, en in enumerate(ents):
        by_fam.setdefault(fam(en["cls"]), []).append(i)
    for f, idxs in by_fam.items():
        if len(idxs) > 1:
            keep = rng.choice(idxs)
            for i in idxs:
                if i != keep:
                    ents[i]["alias"] = True
    if fam(root) != "E" and rng.random() < 0.2:
        kind = rng.choice(["subq", "union", "union_all"])
        one = [{"cls": root}]
        d["root_src"] = {"kind": kind, "wheres": [gen_pred(zoo, rng, one, pop, 1, allow_rel=False)
                                                 for _ in range(1 if kind == "subq" else 2)]}
        ents[0]["alias"] = True
    if rng.random() < 0.8:
        d["where"] = gen_pred(zoo, rng, ents, pop)
    # select list
    r = rng.random()
    if len(ents) > 1 and r < 0.25 and not have_cross:
        # aggregate: group by one entity, aggregate over another (not with a second FROM
        # root: its bare columns would be arbitrary per group)
        g = rng.randrange(len(ents))
        others = [i for i in range(len(ents)) if i != g]
        funcs = []
        for _ in range(rng.randint(1, 2)):
            j = rng.choice(others)
            ic = INTCOLS[ents[j]["cls"]]
            if ic and rng.random() < 0.6:
                funcs.append([rng.choice(["sum", "max", "min", "count"]), j, rng.choice(ic)])
            else:
                funcs.append(["count", j, "id"])
        having = None
        if rng.random() < 0.4:
            having = [0, rng.choice(["gt", "le"]), rng.choice([0, 1, 2])]
        d["agg"] = {"group": g, "funcs": funcs, "having": having, "with_entity": rng.random() < 0.7}
        d["select"] = [["ent", g]] if d["agg"]["with_entity"] else [["col", g, "id"]]
    else:
        sel = []
        for i, en in enumerate(ents):
            k = rng.random()
            if k < 0.55 or (i == 0 and not sel and len(ents) == 1):
                sel.append(["ent", i])
            elif k < 0.8:
                sel.append(["col", i, rng.choice(COLS[en["cls"]])[0]])
        if not sel:
            sel = [["ent", 0]]
        rng.shuffle(sel)
        d["select"] = sel
        d["distinct"] = rng.random() < 0.2
        if rng.random() < 0.15:
            i = rng.randrange(len(ents))
            cand = [n for n in zoo.relnames(fam(ents[i]["cls"]))
                    if zoo.rel(fam(ents[i]["cls"]), n).direction == "o2m"]
            if cand:
                rel = rng.choice(cand)
                t = zoo.rel(fam(ents[i]["cls"]), rel).target
                ic = INTCOLS[t]
                d["scalar_subq"] = {"e": i, "rel": rel,
                                    "func": rng.choice(["count", "max", "sum"]) if ic else "count",
                                    "col": rng.choice(ic) if ic else "id"}
                if d["scalar_subq"]["func"] == "count":
                    d["scalar_subq"]["col"] = "id"
    # a second FROM root is only in the FROM list because something of it is selected
    for i, en in enumerate(ents):
        if en.get("cross") and not any(it[0] in ("ent", "col") and it[1] == i for it in d["select"]):
            d["select"].append(["ent", i])
    # LIMIT / OFFSET (no ORDER BY: which rows come back is open, how many is not)
    d["slice"] = None
    if rng.random() < 0.3:
        lim = rng.choice([None, 0, 1, 2, 5])
        off = rng.choice([None, 0, 1, 3, 50])
        if lim is not None or off is not None:
            d["slice"] = {"limit": lim, "offset": off, "use_slice": rng.random() < 0.4}
    d["sec_join"] = None
    if root in ("A", "T") and not ents[0].get("alias") and not d["root_src"] and rng.random() < 0.3:
        # the user joins the association table itself (un-aliased) into the statement and
        # filters through the many-to-many relationship at the same time
        d["sec_join"] = {"select_col": rng.random() < 0.5 and not d["agg"]}
        mp = m2m_pred(zoo, rng, pop, root)
        d["where"] = mp if d["where"] is None else {"op": "and", "args": [mp, d["where"]]}
    if (len(ents) > 1 and rng.random() < 0.3 and all(it[1] == 0 for it in d["select"]) and not d["agg"]
            and not d["sec_join"]):
        # only items of the root entity are selected: the left-most FROM may be left to
        # inference (with several entities in the columns the ORM asks for select_from)
        d["select_from_last"] = True
    # with_parent on the root: restrict the root to the children of one persistent object
    if rng.random() < 0.12 and not d["root_src"]:
        cands = [(o, n) for (o, n), ri in zoo.rels.items()
                 if ri.target == fam(root) and (ri.direction in ("o2m", "m2m", "o2o"))]
        if cands:
            o, n = rng.choice(cands)
            pks = [row["id"] for row in pop[TABLE[o]]]
            if pks:
                d["with_parent"] = {"cls": o, "rel": n, "pk": rng.choice(pks)}
    return d


def features(d, zoo):
    f = set()
    for j, en in enumerate(d["ents"][1:], 1):
        if en.get("cross"):
            f.add("cross-root")
            if fam(en["cls"]) == "E" and zoo.e_kind == "joined" and (
                    zoo.knobs.get("e_with_poly") == "*" or zoo.knobs.get("e_polyload") == "inline"):
                f.add("wp-cross-root")
            other_alias = any(fam(e2["cls"]) == fam(en["cls"]) and e2.get("alias") and k != j
                              for k, e2 in enumerate(d["ents"]))
            hangs = any(e2.get("via") and e2["via"][0] == j for e2 in d["ents"])
            if not en.get("alias") and other_alias and hangs:
                f.add("plain-entity-join-after-aliased-same-class")
            continue
        if en.get("full"):
            f.add("full-join-pos%d" % min(sum(1 for e2 in d["ents"][1:j + 1] if e2.get("via")), 3))
        ri = zoo.rel(fam(d["ents"][en["via"][0]]["cls"]), en["via"][1])
        f.add("outerjoin" if en["outer"] else "join")
        f.add("join-" + ri.direction)
        if en.get("of_type"):
            f.add("of_type")
        if fam(en["cls"]) == fam(d["ents"][en["via"][0]]["cls"]):
            f.add("self-join")
    if d.get("slice"):
        f.add("slice")
    if any(en.get("alias") for en in d["ents"]):
        f.add("aliased")
    if fam(d["ents"][0]["cls"]) == "E":
        f.add("poly-root")
    if d["root_src"]:
        f.add("root-" + d["root_src"]["kind"])
    if d["agg"]:
        f.add("group_by")
        if d["agg"]["having"]:
            f.add("having")
    if d["scalar_subq"]:
        f.add("scalar_subq")
    if d["distinct"]:
        f.add("distinct")
    if not d["select_from_last"] and len(d["ents"]) > 1:
        f.add("select_from")
    if d["with_parent"]:
        f.add("with_parent")
    if d.get("sec_join"):
        f.add("secondary-in-from")

    def walk(p):
        if p is None:
            return
        if p["op"] in ("and", "or", "not"):
            for a in p["args"]:
                walk(a)
        elif p["op"] in ("any", "has", "contains", "eq_obj", "ne_obj", "exists", "in_subq", "empty", "nonempty"):
            f.add(p["op"])
            f.add("relpred")
            if p.get("kw"):
                f.add("kwargs-%d" % len(p["kw"]))

    walk(d["where"])
    f.add("api-" + d["api"])
    return f


PRIORITY = ["plain-entity-join-after-aliased-same-class", "slice", "full-join-pos3", "full-join-pos2",
            "full-join-pos1", "cross-root", "secondary-in-from", "kwargs-3", "kwargs-2", "kwargs-1", "empty", "nonempty", "root-union", "root-union_all", "root-subq", "group_by", "scalar_subq", "with_parent", "of_type",
            "self-join", "outerjoin", "join-m2m", "in_subq", "exists", "contains", "eq_obj", "ne_obj", "any",
            "has", "select_from", "distinct", "poly-root", "aliased", "join"]


# Result.first() / one_or_none() / one() of a single-entity ORM select read the raw scalar
# row: a row whose entity is None (outer-join miss) is taken for "no more rows"
NULL_ROW_MECH = "result-first-one-treat-null-entity-row-as-no-row"


def mechanism_of(kind, feats):
    if "wp-cross-root" in feats:
        # a second entity mapped with_polymorphic="*" (joined inheritance) loses its
        # polymorphic join as soon as the statement has any explicit FROM / join:
        # FROM ..., e, eng, mgr  (cartesian product)
        return "with-polymorphic-entity-loses-join-with-explicit-froms"
    if "cross-root" in feats and "api-query" in feats and kind.startswith("exists-differs"):
        # Query.exists() keeps only the explicit FROM chain; a FROM root that is present
        # through the columns clause alone is dropped from the EXISTS subquery
        return "legacy-exists-drops-column-only-from-root"
    if "plain-entity-join-after-aliased-same-class" in feats and not kind.startswith(("count-raises", "exists-raises")):
        # a join whose explicit left side is the plain entity A is spliced onto the join of
        # aliased(A) elsewhere in the FROM list (ON clause adapted to the alias, A left as
        # a cartesian FROM): one defect, whatever the symptom
        return "explicit-left-join-spliced-onto-aliased-same-class"
    for p in PRIORITY:
        if p in feats:
            return f"{kind}:{p}"
    return f"{kind}:plain"


# --------------------------------------------------------------------------
# translator 1: description -> plain SQL text (the reference)
# --------------------------------------------------------------------------
class SqlTx:
    def __init__(self, zoo):
        self.zoo = zoo
        self.params = []
        self.n = 0

    def fresh(self, p="s"):
        self.n += 1
        return f"{p}{self.n}"

    def lit(self, v):
        self.params.append(v)
        return "?"

    # -- FROM items ------------------------------------------------------
    def table_expr(self, cls, alias):
        """FROM item for one entity; joined-inheritance subclasses bring their table."""
        if cls in ("Eng", "Mgr") and self.zoo.e_kind == "joined":
            sub = "eng" if cls == "Eng" else "mgr"
            return f"(e AS {alias} JOIN {sub} AS {alias}s ON {alias}s.id = {alias}.id)", None
        if cls in ("Eng", "Mgr"):
            return f"e AS {alias}", f"{alias}.type IN ({', '.join(repr(x) for x in SUBS[cls])})"
        return f"{TABLE[cls]} AS {alias}", None

    def col(self, cls, alias, col):
        if self.zoo.e_kind == "joined" and col in ("lang", "level"):
            return f"{alias}s.{col}"
        return f"{alias}.{col}"

    def link(self, ri, left, right):
        """join condition between the alias of the relationship's owner and its target.
        For many-to-many returns (secondary FROM item, condition on secondary, condition to target)."""
        if ri.direction in ("o2m", "o2o"):
            return f"{right}.{ri.fk_col} = {left}.id"
        if ri.direction == "m2o":
            return f"{right}.id = {left}.{ri.fk_col}"
        raise AssertionError

    # -- predicates ------------------------------------------------------
    def pred(self, p, ents, aliases):
        op = p["op"]
        if op in ("and", "or"):
            return "(" + f" {op.upper()} ".join(self.pred(a, ents, aliases) for a in p["args"]) + ")"
        if op == "not":
            return f"(NOT {self.pred(p['args'][0], ents, aliases)})"
        e = p["e"]
        cls, al = ents[e]["cls"], aliases[e]
        if op in ("any", "has", "exists", "in_subq", "contains", "eq_obj", "ne_obj", "empty", "nonempty"):
            ri = self.zoo.rel(fam(cls), p["rel"])
            if op in ("eq_obj", "ne_obj"):
                c = f"{al}.{ri.fk_col}"
                if p["pk"] is None:
                    return f"{c} IS NULL" if op == "eq_obj" else f"{c} IS NOT NULL"
                if op == "eq_obj":
                    return f"{c} = {self.lit(p['pk'])}"
                # object semantics, deliberate in Comparator.__negated_contains_or_equals:
                # "the related object is not <obj>" includes rows that have no related object
                return f"({c} != {self.lit(p['pk'])} OR {c} IS NULL)"
            if op == "contains":
                if ri.direction == "m2m":
                    sec, lc, rc = ri.secondary
                    x = self.fresh("x")
                    return (f"EXISTS (SELECT 1 FROM {sec} AS {x} WHERE {x}.{lc} = {al}.id "
                            f"AND {x}.{rc} = {self.lit(p['pk'])})")
                # one-to-many: the member's foreign key names this row
                s = self.fresh()
                return (f"{al}.id = (SELECT {s}.{ri.fk_col} FROM {TABLE[ri.target]} AS {s} "
                        f"WHERE {s}.id = {self.lit(p['pk'])})")
            s = self.fresh()
            tcls = ri.target
            if ri.direction == "m2m":
                sec, lc, rc = ri.secondary
                x = self.fresh("x")
                frm = f"{sec} AS {x} JOIN {TABLE[tcls]} AS {s} ON {s}.id = {x}.{rc}"
                cond = f"{x}.{lc} = {al}.id"
            else:
                frm = f"{TABLE[tcls]} AS {s}"
                cond = self.link(ri, al, s)
            inner = ""
            if p.get("inner") is not None:
                inner = " AND " + self.pred(p["inner"], [{"cls": tcls}], [s])
            for col in sorted(p.get("kw") or {}):
                inner += f" AND {self.col(tcls, s, col)} = {self.lit(p['kw'][col])}"
            if op == "in_subq":
                neg = "NOT " if p["neg"] else ""
                return (f"{al}.id {neg}IN (SELECT {s}.{ri.fk_col} FROM {frm} WHERE 1 = 1{inner})")
            ex = f"EXISTS (SELECT 1 FROM {frm} WHERE {cond}{inner})"
            if (op == "exists" and p["neg"]) or op == "empty":
                return f"(NOT {ex})"
            return ex
        c = self.col(cls, al, p["col"])
        v = p["v"]
        if op == "gt":
            return f"{c} > {self.lit(v)}"
        if op == "le":
            return f"{c} <= {self.lit(v)}"
        if op == "eq":
            return f"{c} = {self.lit(v)}"
        if op == "ne":
            return f"{c} != {self.lit(v)}"
        if op == "isnull":
            return f"{c} IS NULL"
        if op == "notnull":
            return f"{c} IS NOT NULL"
        if op == "in":
            return f"{c} IN ({', '.join(self.lit(x) for x in v)})"
        raise AssertionError(op)

    # -- whole query -----------------------------------------------------
    def query(self, d):
        zoo = self.zoo
        ents = d["ents"]
        aliases = [f"t{i}" for i in range(len(ents))]
        where = []
        # root
        root = ents[0]["cls"]
        if d["root_src"]:
            parts = []
            for w in d["root_src"]["wheres"]:
                s = self.fresh()
                parts.append(f"SELECT {s}.* FROM {TABLE[root]} AS {s} WHERE {self.pred(w, [{'cls': root}], [s])}")
            glue = " UNION ALL " if d["root_src"]["kind"] == "union_all" else " UNION "
            frm = f"({glue.join(parts)}) AS t0"
        else:
            frm, extra = self.table_expr(root, "t0")
            if extra:
                where.append(extra)
        sec_alias = None
        if d.get("sec_join"):
            rel = "tags" if root == "A" else "owners"
            sec, lc, rc = zoo.rel(root, rel).secondary
            sec_alias = "xs"
            frm += f" JOIN {sec} AS xs ON xs.{lc} = t0.id"
        for j, en in enumerate(ents[1:], 1):
            if en.get("cross"):
                item, extra = self.table_expr(en["cls"], aliases[j])
                frm += f", {item}"
                if extra:
                    where.append(extra)
                continue
            i, rel = en["via"]
            ri = zoo.rel(fam(ents[i]["cls"]), rel)
            item, extra = self.table_expr(en["cls"], aliases[j])
            kw = "FULL OUTER JOIN" if en.get("full") else ("LEFT OUTER JOIN" if en["outer"] else "JOIN")
            if ri.direction == "m2m":
                sec, lc, rc = ri.secondary
                x = f"x{j}"
                on2 = f"{aliases[j]}.id = {x}.{rc}" + (f" AND {extra}" if extra else "")
                frm += f" {kw} ({sec} AS {x} JOIN {item} ON {on2}) ON {x}.{lc} = {aliases[i]}.id"
            else:
                on = self.link(ri, aliases[i], aliases[j]) + (f" AND {extra}" if extra else "")
                frm += f" {kw} {item} ON {on}"
        if d["with_parent"]:
            wp = d["with_parent"]
            ri = zoo.rel(wp["cls"], wp["rel"])
            if ri.direction == "m2m":
                sec, lc, rc = ri.secondary
                x = self.fresh("x")
                where.append(f"EXISTS (SELECT 1 FROM {sec} AS {x} WHERE {x}.{rc} = t0.id AND {x}.{lc} = {self.lit(wp['pk'])})")
            else:
                where.append(f"t0.{ri.fk_col} = {self.lit(wp['pk'])}")
        if d["where"]:
            where.append(self.pred(d["where"], ents, aliases))
        cols = []
        shape = []   # how to read the reference row back: ("ent", cls, n columns) | ("val",)
        for item in d["select"]:
            if item[0] == "ent":
                i = item[1]
                cols.append(f"{aliases[i]}.id")
                if fam(ents[i]["cls"]) == "E":
                    cols.append(f"{aliases[i]}.type")
                    shape.append(("poly",))
                else:
                    shape.append(("ent", ents[i]["cls"]))
            else:
                i, c = item[1], item[2]
                cols.append(self.col(ents[i]["cls"], aliases[i], c))
                shape.append(("val",))
        if sec_alias and d["sec_join"]["select_col"]:
            rel = "tags" if root == "A" else "owners"
            cols.append(f"xs.{zoo.rel(root, rel).secondary[2]}")
            shape.append(("val",))
        group = having = ""
        if d["agg"]:
            a = d["agg"]
            exprs = []
            for fn, j, c in a["funcs"]:
                exprs.append(f"{fn}({self.col(ents[j]['cls'], aliases[j], c)})")
                shape.append(("val",))
            cols.extend(exprs)
            group = f" GROUP BY {aliases[a['group']]}.id"
            if a["having"]:
                k, op, v = a["having"]
                having = f" HAVING {exprs[k]} {'>' if op == 'gt' else '<='} {self.lit(v)}"
        if d["scalar_subq"]:
            sq = d["scalar_subq"]
            i = sq["e"]
            ri = zoo.rel(fam(ents[i]["cls"]), sq["rel"])
            s = self.fresh()
            cols.append(f"(SELECT {sq['func']}({s}.{sq['col']}) FROM {TABLE[ri.target]} AS {s} "
                        f"WHERE {s}.{ri.fk_col} = {aliases[i]}.id)")
            shape.append(("val",))
        # parameters were appended in generation order of the text pieces above; the
        # pieces are concatenated in a different order, so number them explicitly
        sql = (f"SELECT {'DISTINCT ' if d['distinct'] else ''}{', '.join(cols)} FROM {frm}"
               + (f" WHERE {' AND '.join(where)}" if where else "") + group + having)
        return sql, shape


class NumberedSqlTx(SqlTx):
    """Same translator with numbered parameters (?1, ?2 ...) so that the order in which
    text fragments are produced does not matter."""

    def lit(self, v):
        self.params.append(v)
        return f"?{len(self.params)}"


def read_reference(rows, shape):
    out = []
    for r in rows:
        it = iter(r)
        row = []
        for sh in shape:
            if sh[0] == "ent":
                pk = next(it)
                row.append(None if pk is None else (sh[1], pk))
            elif sh[0] == "poly":
                pk, ty = next(it), next(it)
                row.append(None if pk is None else (TYPE2CLS[ty], pk))
            else:
                row.append(next(it))
        out.append(tuple(row))
    return out


# --------------------------------------------------------------------------
# translator 2: description -> ORM statement
# --------------------------------------------------------------------------
class OrmTx:
    def __init__(self, zoo, sa, orm, session):
        self.zoo, self.sa, self.orm, self.s = zoo, sa, orm, session

    def pred(self, p, ents, oents):
        sa = self.sa
        op = p["op"]
        if op in ("and", "or"):
            f = sa.and_ if op == "and" else sa.or_
            return f(*[self.pred(a, ents, oents) for a in p["args"]])
        if op == "not":
            return sa.not_(self.pred(p["args"][0], ents, oents))
        e = p["e"]
        ent = oents[e]
        cls = ents[e]["cls"]
        if op in ("empty", "nonempty"):
            attr = getattr(ent, p["rel"])
            return attr == None if op == "empty" else attr != None  # noqa: E711
        if op in ("any", "has"):
            attr = getattr(ent, p["rel"])
            ri = self.zoo.rel(fam(cls), p["rel"])
            if p.get("kw"):
                return getattr(attr, op)(**p["kw"])
            if p["inner"] is None:
                return getattr(attr, op)()
            tcls = self.zoo.cls[ri.target]
            return getattr(attr, op)(self.pred(p["inner"], [{"cls": ri.target}], [tcls]))
        if op == "contains":
            ri = self.zoo.rel(fam(cls), p["rel"])
            obj = self.s.get(self.zoo.cls[ri.target], p["pk"])
            return getattr(ent, p["rel"]).contains(obj)
        if op in ("eq_obj", "ne_obj"):
            ri = self.zoo.rel(fam(cls), p["rel"])
            obj = None if p["pk"] is None else self.s.get(self.zoo.cls[ri.target], p["pk"])
            attr = getattr(ent, p["rel"])
            return attr == obj if op == "eq_obj" else attr != obj
        if op in ("exists", "in_subq"):
            ri = self.zoo.rel(fam(cls), p["rel"])
            t = self.orm.aliased(self.zoo.cls[ri.target])
            inner = self.pred(p["inner"], [{"cls": ri.target}], [t])
            if op == "in_subq":
                sub = sa.select(getattr(t, ri.fk_col)).where(inner)
                return ent.id.not_in(sub) if p["neg"] else ent.id.in_(sub)
            # explicit EXISTS, correlated through the relationship's join condition
            if ri.direction == "m2m":
                # (aliased: a plain Core EXISTS over the bare association table would
                # auto-correlate to an outer FROM that contains it)
                sec = self.zoo.tables[ri.secondary[0]].alias()
                ex = sa.exists().where(sec.c[ri.secondary[1]] == ent.id, sec.c[ri.secondary[2]] == t.id, inner)
            elif ri.direction == "m2o":
                ex = sa.exists().where(t.id == getattr(ent, ri.fk_col), inner)
            else:
                ex = sa.exists().where(getattr(t, ri.fk_col) == ent.id, inner)
            return ~ex if p["neg"] else ex
        c = getattr(ent, p["col"])
        v = p["v"]
        return {"gt": lambda: c > v, "le": lambda: c <= v, "eq": lambda: c == v, "ne": lambda: c != v,
                "isnull": lambda: c.is_(None), "notnull": lambda: c.is_not(None), "in": lambda: c.in_(v)}[op]()

    def build(self, d):
        sa, orm, zoo = self.sa, self.orm, self.zoo
        ents = d["ents"]
        oents = []
        for i, en in enumerate(ents):
            c = zoo.cls[en["cls"]]
            if i == 0 and d["root_src"]:
                rs = d["root_src"]
                sels = [sa.select(c).where(self.pred(w, [{"cls": en["cls"]}], [c])) for w in rs["wheres"]]
                if rs["kind"] == "subq":
                    sub = sels[0].subquery()
                elif rs["kind"] == "union":
                    sub = sa.union(*sels).subquery()
                else:
                    sub = sa.union_all(*sels).subquery()
                oents.append(orm.aliased(c, sub))
            else:
                oents.append(orm.aliased(c) if en.get("alias") else c)
        sel = []
        for item in d["select"]:
            if item[0] == "ent":
                sel.append(oents[item[1]])
            else:
                sel.append(getattr(oents[item[1]], item[2]))
        sec_t = None
        if d.get("sec_join"):
            rel = "tags" if ents[0]["cls"] == "A" else "owners"
            sec, lc, rc = zoo.rel(ents[0]["cls"], rel).secondary
            sec_t = zoo.tables[sec]
            if d["sec_join"]["select_col"]:
                sel.append(sec_t.c[rc])
        aggs = []
        if d["agg"]:
            for fn, j, c in d["agg"]["funcs"]:
                aggs.append(getattr(sa.func, fn)(getattr(oents[j], c)))
            sel.extend(aggs)
        if d["scalar_subq"]:
            sq = d["scalar_subq"]
            i = sq["e"]
            ri = zoo.rel(fam(ents[i]["cls"]), sq["rel"])
            t = orm.aliased(zoo.cls[ri.target])
            sub = (sa.select(getattr(sa.func, sq["func"])(getattr(t, sq["col"])))
                   .where(getattr(t, ri.fk_col) == oents[i].id).scalar_subquery())
            sel.append(sub)
        legacy = d["api"] == "query"
        stmt = self.s.query(*sel) if legacy else sa.select(*sel)
        if (len(ents) > 1 or sec_t is not None) and not d["select_from_last"]:
            # the left-most FROM is stated, except (select_from_last) when every selected
            # item belongs to the root entity, where it is left to inference
            stmt = stmt.select_from(oents[0])
        if sec_t is not None:
            rel = "tags" if ents[0]["cls"] == "A" else "owners"
            lc = zoo.rel(ents[0]["cls"], rel).secondary[1]
            stmt = stmt.join(sec_t, sec_t.c[lc] == oents[0].id)
        for j, en in enumerate(ents[1:], 1):
            if en.get("cross"):
                continue   # in the FROM list through the select list only
            i, rel = en["via"]
            attr = getattr(oents[i], rel)
            target = attr.of_type(oents[j]) if (en.get("alias") or en.get("of_type")) else attr
            kwj = {"full": True} if en.get("full") else {}
            stmt = stmt.join(target, isouter=en["outer"], **kwj)
        crit = []
        if d["with_parent"]:
            wp = d["with_parent"]
            obj = self.s.get(zoo.cls[wp["cls"]], wp["pk"])
            kw = {"from_entity": oents[0]} if oents[0] is not zoo.cls[ents[0]["cls"]] else {}
            crit.append(orm.with_parent(obj, getattr(zoo.cls[wp["cls"]], wp["rel"]), **kw))
        if d["where"]:
            crit.append(self.pred(d["where"], ents, oents))
        for c in crit:
            stmt = stmt.filter(c) if legacy else stmt.where(c)
        if d["agg"]:
            stmt = stmt.group_by(oents[d["agg"]["group"]].id)
            if d["agg"]["having"]:
                k, op, v = d["agg"]["having"]
                stmt = stmt.having(aggs[k] > v if op == "gt" else aggs[k] <= v)
        if d["distinct"]:
            stmt = stmt.distinct()
        sl = d.get("slice")
        if sl:
            if legacy and sl["use_slice"] and sl["limit"] is not None and sl["offset"] is not None:
                stmt = stmt.slice(sl["offset"], sl["offset"] + sl["limit"])
            else:
                if sl["limit"] is not None:
                    stmt = stmt.limit(sl["limit"])
                if sl["offset"] is not None:
                    stmt = stmt.offset(sl["offset"])
        return stmt


def norm_orm_rows(rows, R):
    out = []
    for r in rows:
        row = []
        for v in r:
            if v is not None and hasattr(v, "__dict__") and "_sa_instance_state" in v.__dict__:
                cn, pk = R.ident(v).split(":", 1)
                row.append((cn, int(pk)))
            else:
                row.append(v)
        out.append(tuple(row))
    return out


def ckey(row):
    return repr(row)


COLLECTION_RELS = ["A_bs", "A_children", "A_tags", "A_es", "B_cs", "T_owners"]


def no_joined_collections(rng):
    """Mapper-level lazy="joined" on a collection makes Result.unique() mandatory, which
    de-duplicates primary rows (documented); C41 compares row multisets, so collections
    default to one of the other strategies here (C40 covers joined collections)."""
    return {f"lazy_{r}": rng.choice(["select", "select", "selectin", "subquery", "immediate"])
            for r in COLLECTION_RELS}


def run(ctx):
    import random
    import sqlite3
    import warnings

    import sqlalchemy as sa
    from sqlalchemy import orm

    from vf.gen import ormrig_gl as R

    rng = ctx.rng
    n_zoo = ctx.pick({"quick": 4, "thorough": 12})
    n_query = ctx.pick({"quick": 45, "thorough": 400})
    for zi in range(n_zoo):
        if not ctx.budget_ok():
            break
        zoo = R.build_zoo(rng, knobs=no_joined_collections(rng))
        path = ctx.tmppath(".db")
        engine = sa.create_engine(f"sqlite:///{path}")
        pop_seed = rng.randrange(1 << 30)
        scale = ctx.pick({"quick": 1, "thorough": 2})
        pop = R.populate(zoo, random.Random(pop_seed), engine, scale=scale)
        raw = sqlite3.connect(path)
        try:
            for qi in range(n_query):
                if not ctx.budget_ok():
                    break
                d = gen_desc(zoo, rng, pop)
                with warnings.catch_warnings():
                    warnings.simplefilter("ignore")
                    one_query(ctx, sa, orm, R, zoo, engine, raw, d, {"knobs": zoo.knobs, "pop_seed": pop_seed,
                                                                   "pop_scale": scale})
        finally:
            raw.close()
            engine.dispose()
            zoo.dispose()


def one_query(ctx, sa, orm, R, zoo, engine, raw, d, origin):
    feats = features(d, zoo)
    tx = NumberedSqlTx(zoo)
    sql, shape = tx.query(d)          # harness translator: bugs here must crash, not "violate"
    ref = read_reference(raw.execute(sql, tx.params).fetchall(), shape)
    witness = dict(origin, desc=d, reference_sql=sql, reference_params=tx.params)
    with orm.Session(engine) as s:
        otx = OrmTx(zoo, sa, orm, s)
        stmt = otx.build(d)
        legacy = d["api"] == "query"
        try:
            if legacy:
                rows = list(stmt)   # legacy Query iteration
                single = (len(d["select"]) == 1 and not d["agg"] and not d["scalar_subq"] and d["select"][0][0] == "ent"
                          and not (d.get("sec_join") and d["sec_join"]["select_col"]))
                got = [(r,) for r in rows] if single else [tuple(r) for r in rows]
            else:
                got = [tuple(r) for r in s.execute(stmt)]
        except Exception as e:
            ctx.case(d, nontrivial=False)
            if (isinstance(e, sa.exc.OperationalError) and "no such column" in str(e) and "cross-root" in feats
                    and any(ri.lazy == "subquery" for ri in zoo.rels.values())):
                # mapper-level subquery eager loading re-embeds the statement; with an explicit
                # select_from() the second FROM root (present through the columns only) is lost
                ctx.violation("subqueryload-embedded-query-loses-second-from-root:OperationalError",
                              f"{str(e)[:300]}", dict(witness, error=str(e)[:800]))
                return
            ctx.violation(mechanism_of(f"orm-raises-{type(e).__name__}", feats),
                          f"ORM statement raised {type(e).__name__}: {str(e)[:200]}; reference SQL ran: {sql[:300]}",
                          dict(witness, error=str(e)[:500]))
            return
        got = norm_orm_rows(got, R)
        ctx.count("queries_compared")
        ctx.count("rows_compared", len(ref))
        for f in feats:
            ctx.seen("features", f)
        if "relpred" in feats:
            ctx.count("queries_with_relationship_predicate")
        if "outerjoin" in feats:
            ctx.count("queries_with_outer_join")
        if any(f.startswith("full-join") for f in feats):
            ctx.count("full_join_queries")
        if "cross-root" in feats:
            ctx.count("cross_root_queries")
        if ref:
            ctx.count("nonempty_results")
        nontrivial = bool(ref) and (len(d["ents"]) > 1 or "relpred" in feats or d["root_src"] is not None
                                    or d["scalar_subq"] is not None)
        ctx.case(d, nontrivial=nontrivial)
        sl = d.get("slice")
        if sl:
            off = sl["offset"] or 0
            expected_n = max(0, len(ref) - off)
            if sl["limit"] is not None:
                expected_n = min(expected_n, sl["limit"])
            ctx.count("sliced_queries")
            if expected_n == 0 and ref:
                ctx.count("slice_empties_result")
        else:
            expected_n = len(ref)
        dedup = legacy and any(it[0] == "ent" for it in d["select"])
        cg, cr = Counter(map(ckey, got)), Counter(map(ckey, ref))
        if sl:
            # no ORDER BY: which rows come back is open; they must be rows of the unsliced
            # result and as many as LIMIT/OFFSET leave
            if dedup:
                same = (set(cg) <= set(cr) and len(got) == len(cg) and len(got) <= expected_n
                        and (len(got) > 0) == (expected_n > 0))
                ctx.count("legacy_dedup_compared")
            else:
                same = not (cg - cr) and len(got) == expected_n
                ctx.count("multiset_compared")
        elif dedup:
            # legacy Query de-duplicates rows that contain mapped entities (documented
            # legacy behaviour): compare as sets, and require the ORM rows to be unique
            same = set(cg) == set(cr) and len(got) == len(cg)
            ctx.count("legacy_dedup_compared")
        else:
            same = cg == cr
            ctx.count("multiset_compared")
        if not same:
            extra = sorted((Counter(map(ckey, got)) - Counter(map(ckey, ref))).elements())[:5]
            missing = sorted((Counter(map(ckey, ref)) - Counter(map(ckey, got))).elements())[:5]
            ctx.violation(mechanism_of("rows-differ", feats),
                          f"ORM returned {len(got)} rows, reference {len(ref)} (expected after slice {expected_n}); "
                          f"extra={extra} missing={missing if not sl else '-'}; "
                          f"reference SQL: {sql[:300]}",
                          dict(witness, orm_sql=str(stmt if not legacy else stmt.statement), got=got[:30], expected=ref[:30]))
            return
        # count() / exists() agree with the rows
        try:
            if legacy:
                cnt = stmt.count()   # counts SQL rows (documented), not de-duplicated objects
            else:
                cnt = s.scalar(sa.select(sa.func.count()).select_from(stmt.subquery()))
        except Exception as e:
            ctx.violation(mechanism_of(f"count-raises-{type(e).__name__}", feats),
                          f"count() raised {type(e).__name__}: {str(e)[:200]}", dict(witness, error=str(e)[:500]))
            return
        try:
            if legacy:
                ex = s.query(stmt.exists()).scalar()
            else:
                ex = s.scalar(sa.select(stmt.exists()))
        except Exception as e:
            first = d["select"][0][1]
            if (legacy and isinstance(e, sa.exc.InvalidRequestError) and first != 0 and len(d["ents"]) >= 3
                    and "left side of this join" in str(e)):
                # Query.exists() adds select_from(<entity of the first column>) to a query
                # that already has select_from(<other entity>) and a chain of joins
                mech = "legacy-exists-raises:explicit-select_from-not-first-column-entity"
            else:
                mech = mechanism_of(f"exists-raises-{type(e).__name__}", feats)
            ctx.violation(mech, f"exists() raised {type(e).__name__}: {str(e)[:200]} for a query that returns "
                                f"{len(ref)} rows; reference SQL: {sql[:300]}", dict(witness, error=str(e)[:500]))
            return
        n_for_count = expected_n
        ctx.count("count_checks")
        ctx.count("exists_checks")
        if cnt != n_for_count:
            ctx.violation(mechanism_of("count-differs", feats),
                          f"count()={cnt} but the query returns {n_for_count} rows; reference SQL: {sql[:300]}",
                          dict(witness, count=cnt))
        if sl and d["distinct"]:
            # SQLite drops DISTINCT inside EXISTS(...) ("select exists(select distinct x from t
            # limit 1 offset 2)" is 1 where the inner select is empty): not the ORM's doing
            ctx.count("exists_not_judged_sqlite_distinct_in_exists")
        elif bool(ex) != (expected_n > 0):
            ctx.violation(mechanism_of("exists-differs", feats),
                          f"exists()={ex} but the query returns {expected_n} rows ({len(ref)} before LIMIT/OFFSET)",
                          dict(witness, exists=ex))
        # first() / one_or_none() agree with the rows.  Legacy Query returning a single
        # entity yields the bare entity, which is None for an outer-joined miss: "no row"
        # and "a row holding None" cannot be told apart there
        single_ent = (len(d["select"]) == 1 and d["select"][0][0] == "ent" and not d["agg"] and not d["scalar_subq"]
                      and not (d.get("sec_join") and d["sec_join"]["select_col"]))
        scalar_none = legacy and single_ent and any(r[0] is None for r in ref)
        null_entity_rows = (not legacy) and single_ent and any(r[0] is None for r in ref)
        try:
            if scalar_none:
                raise StopIteration
            if legacy:
                # Query.first() applies its own LIMIT 1, replacing a LIMIT 0 (documented:
                # "applies a limit of one"): not judged for LIMIT 0
                fr = "skip" if (sl and sl["limit"] == 0) else stmt.first()
            else:
                fr = s.execute(stmt).first()
            if fr != "skip":
                ctx.count("first_checks")
                if (fr is None) != (expected_n == 0):
                    ctx.violation(NULL_ROW_MECH if null_entity_rows else mechanism_of("first-differs", feats),
                                  f"first() is {'None' if fr is None else 'a row'} but the query returns {expected_n} rows",
                                  witness)
            if expected_n <= 1 or not dedup:
                try:
                    one = stmt.one_or_none() if legacy else s.execute(stmt).one_or_none()
                    multiple = False
                except sa.exc.MultipleResultsFound:
                    one, multiple = None, True
                ctx.count("one_or_none_checks")
                if multiple != (expected_n > 1) or (not multiple and (one is None) != (expected_n == 0)):
                    ctx.violation(NULL_ROW_MECH if null_entity_rows else mechanism_of("one_or_none-differs", feats),
                                  f"one_or_none() -> {'MultipleResultsFound' if multiple else ('None' if one is None else 'a row')} "
                                  f"but the query returns {expected_n} rows", witness)
        except StopIteration:
            pass
        except Exception as e:
            ctx.violation(mechanism_of(f"first-one-raises-{type(e).__name__}", feats),
                          f"first()/one_or_none() raised {type(e).__name__}: {str(e)[:200]}", dict(witness, error=str(e)[:400]))
        if len(ctx.samples) < 3 and nontrivial:
            ctx.sample({"desc": d, "reference_sql": sql, "rows": len(ref)})


def replay(witness, verbose=True):
    """Re-run one witness outside the harness."""
    import random
    import sqlite3
    import warnings

    import sqlalchemy as sa
    from sqlalchemy import orm

    from vf.gen import ormrig_gl as R

    w = witness
    warnings.simplefilter("ignore")
    zoo = R.build_zoo(random.Random(0), knobs=w["knobs"])
    path = "/dev/shm/gl-replay-c41.db"
    import os
    if os.path.exists(path):
        os.unlink(path)
    engine = sa.create_engine(f"sqlite:///{path}", echo=verbose)
    R.populate(zoo, random.Random(w["pop_seed"]), engine, scale=w["pop_scale"])
    raw = sqlite3.connect(path)
    d = w["desc"]
    tx = NumberedSqlTx(zoo)
    sql, shape = tx.query(d)
    ref = read_reference(raw.execute(sql, tx.params).fetchall(), shape)
    s = orm.Session(engine)
    stmt = OrmTx(zoo, sa, orm, s).build(d)
    print("REFSQL:", sql, tx.params)
    print("REF:", ref)
    return zoo, engine, s, stmt, ref
