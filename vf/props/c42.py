"""C42 -- polymorphic queries return each row as its most specific class.

Workload: generated class trees (depth <= 3 below the root, width <= 3, <= 8 classes)
mapped as joined-table, single-table, mixed (joined tree where some subclasses are
single-table onto their parent's table) or concrete (``polymorphic_union``, with a union
per intermediate class as documented for multi-level concrete) inheritance, with random
abstract intermediates (``polymorphic_abstract`` or simply unpopulated), random
``polymorphic_load`` ("inline" / "selectin") per subclass or ``with_polymorphic="*"`` on
the base, string or integer discriminators that include the falsy identities "" and 0,
and a random population written with plain Core inserts.  After the first round a
further single-table subclass is mapped late (hierarchy already configured and used),
its rows are inserted, and every class is queried again - first with the compiled cache
untouched, then (``@late`` mechanisms) with freshly compiled statements.  Round 3: a
populate_existing round (objects held with every attribute read, rows changed behind the
session, every class re-queried with populate_existing through the execution option,
Query.populate_existing(), get(populate_existing=True) and a with_polymorphic subset) and
a two-thread round (same cached polymorphic statement, cold cache, thread B interleaved
at each of thread A's ``Result._getter`` calls).  Every class of the
tree is queried with every applicable polymorphic loading option:

  default select | with_polymorphic(K, "*") | with_polymorphic(K, [subset]) |
  with_polymorphic + flat=True | selectin_polymorphic(K, [subset]) | a column option on the
  with_polymorphic entity | WHERE on a subclass attribute through with_polymorphic |
  of_type through a relationship (join, selectinload, joinedload of a with_polymorphic
  of_type) | legacy Query | Session.get of every primary key at that class

Oracle: the generator's own population table ``{class, id, attributes}``: the result is
exactly the rows whose class is K or below, each object's ``type()`` is the class the row
was generated as, and every attribute of that class has the generated value after plain
attribute access.

Guards: row order is never compared; concrete hierarchies use globally unique ids (the
documented requirement for a usable polymorphic identity) and are not queried with
subsets / selectin_polymorphic / of_type (not supported for concrete);
``Session.get(K, pk)`` of a row outside K's subtree is expected to be ``None`` only for
non-concrete hierarchies (concrete tables have independent key spaces).

Also fires on the unchanged tree: ``late-mapped-subclass-stale-compiled-cache`` - after a
single-table subclass is mapped late, a *fresh* ``select(Parent)`` is served from the
compiled cache with the old ``discriminator IN (...)`` list (the criterion is added at
compile time and is not part of the cache key); correct after
``engine.clear_compiled_cache()``.  Proposed patch:
selftest/C42/proposed_fixes/mapper_cache_key_includes_hierarchy_generation.diff.

Fires on the unchanged tree (candidate genuine defect, proposed patch in
selftest/C42/proposed_fixes): ``wp-entity-option-rejected-by-selectin-polymorphic-subload:ArgumentError``
- with ``polymorphic_load="selectin"`` on a subclass, ``select(with_polymorphic(Base, "*"))``
still emits the secondary "selectin" statement (although every column was loaded
inline) and re-applies the user's loader options to it; any option written against the
with_polymorphic entity then raises ArgumentError.
"""
from __future__ import annotations

META = {
    "id": "C42",
    "level": "exploration",
    "technique": "generated inheritance hierarchies queried at every class under every polymorphic loading option; oracle = the generator's population table",
    "level_text": "Random class trees x {joined, single, mixed, concrete} x mapper-level polymorphic_load / with_polymorphic knobs x populations; at each class every loading option is executed in a fresh session and row set, most-specific class and all attribute values are checked against the population.",
    "level_note": "SQLite only. One discriminator column of string type; no polymorphic_on expressions / callables, no composite keys, no relationships on subclasses (of_type is exercised from an owner class to the hierarchy root).",
    "design_ref": "DESIGN.md section 4, C42",
    "rule": "case = (hierarchy shape+kind+knobs, population, class queried, option); non-trivial = the expected row set contains >=1 row of a proper subclass of the queried class or the queried class has >=2 own rows; distinct by (shape, kind, knobs, class, option)",
    "shards": {"quick": 8, "thorough": 16},
    "modes": ["cext"],
    "soft_s": {"quick": 45, "thorough": 600},
    "exhaustive": {"quick": False, "thorough": False},
    "require": ["queries", "objects_checked", "attrs_checked", "subclass_objects_checked", "get_checks",
                "queries_after_late_subclass", "falsy_identity_hierarchies", "populate_existing_queries",
                "concurrent_trials",
                "hier_joined", "hier_single", "hier_mixed", "hier_concrete"],
    "assumptions": ["the population table written by plain INSERTs is the ground truth"],
}


def expected_rows(h, pop, node):
    names = {n.name for n in node.descendants()}
    return [r for r in pop["rows"] if r["cls"] in names]


def check_objects(ctx, h, pop, node, option, objs, witness, expect=None):
    """objs: list of loaded entities for a query at ``node``."""
    exp = expected_rows(h, pop, node) if expect is None else expect
    by_id = {r["id"]: r for r in exp}
    got_ids = sorted(o.id for o in objs)
    exp_ids = sorted(by_id)
    kind = h.kind
    if got_ids != exp_ids:
        ctx.violation(f"rowset-differs:{kind}/{option}",
                      f"query at {node.name} ({option}) returned ids {got_ids}, population says {exp_ids}",
                      dict(witness, got=got_ids, expected=exp_ids))
        return False
    ok = True
    for o in objs:
        row = by_id[o.id]
        ctx.count("objects_checked")
        if type(o).__name__ != row["cls"]:
            ctx.violation(f"wrong-class:{kind}/{option}",
                          f"row id={o.id} generated as {row['cls']} came back as {type(o).__name__} "
                          f"(query at {node.name}, {option})", dict(witness, id=o.id))
            ok = False
            continue
        if row["cls"] != node.name:
            ctx.count("subclass_objects_checked")
        for a in h.node(row["cls"]).all_attrs():
            ctx.count("attrs_checked")
            try:
                v = getattr(o, a)
            except Exception as e:
                ctx.violation(f"attr-access-raises-{type(e).__name__}:{kind}/{option}",
                              f"{row['cls']}#{o.id}.{a} raised {type(e).__name__}: {str(e)[:200]}",
                              dict(witness, id=o.id, attr=a))
                ok = False
                break
            if v != row[a]:
                ctx.violation(f"wrong-attribute:{kind}/{option}",
                              f"{row['cls']}#{o.id}.{a} = {v!r}, population says {row[a]!r} "
                              f"(query at {node.name}, {option})", dict(witness, id=o.id, attr=a))
                ok = False
    return ok


def options_for(h, node, rng):
    """Names of the loading options applicable at ``node``."""
    subs = node.descendants()[1:]
    out = ["default", "legacy_query", "get"]
    if h.kind == "concrete":
        if node.children:
            out.append("wp_star")
        return out
    out += ["wp_star", "wp_star_flat", "wp_star_coloption", "of_type_join"]
    if node.parent is None:
        # eager loading through of_type is documented with a with_polymorphic of the
        # relationship's own target; whether of_type(<subclass>) narrows an eagerly loaded
        # collection is left open by the documentation (joined narrows, selectin does not),
        # so it is only asserted at the root class
        out += ["of_type_selectinload", "of_type_joinedload_wp"]
    if subs:
        out += ["wp_subset", "selectin_poly_subset", "selectin_poly_all", "wp_where_sub_attr", "wp_subset_legacy"]
    return out


def run_option(sa, orm, h, pop, node, option, s, rng_pick):
    """Execute one option; returns (list of objects of the hierarchy, expected rows or None)."""
    K = node.cls
    subs = node.descendants()[1:]
    subset = [n for i, n in enumerate(subs) if (rng_pick >> i) & 1] or subs[:1]
    if option == "default":
        return s.scalars(sa.select(K)).all(), None
    if option == "legacy_query":
        return s.query(K).all(), None
    if option == "wp_star":
        wp = orm.with_polymorphic(K, "*")
        return s.scalars(sa.select(wp)).all(), None
    if option == "wp_star_flat":
        wp = orm.with_polymorphic(K, "*", flat=True)
        return s.scalars(sa.select(wp)).all(), None
    if option == "wp_star_coloption":
        wp = orm.with_polymorphic(K, "*")
        attr = h.root.own_attrs[0]
        return s.scalars(sa.select(wp).options(orm.defer(getattr(wp, attr)))).all(), None
    if option == "wp_subset":
        wp = orm.with_polymorphic(K, [n.cls for n in subset])
        return s.scalars(sa.select(wp)).all(), None
    if option == "wp_subset_legacy":
        wp = orm.with_polymorphic(K, [n.cls for n in subset])
        return s.query(wp).all(), None
    if option == "selectin_poly_subset":
        return s.scalars(sa.select(K).options(orm.selectin_polymorphic(K, [n.cls for n in subset]))).all(), None
    if option == "selectin_poly_all":
        return s.scalars(sa.select(K).options(orm.selectin_polymorphic(K, [n.cls for n in subs]))).all(), None
    if option == "wp_where_sub_attr":
        # WHERE on an attribute of one subclass through the with_polymorphic entity:
        # expected = rows of that subclass (and below) whose attribute is not NULL
        sub = next((n for n in subset + subs if n.own_attrs), None)
        if sub is None:   # only attribute-less (late mapped) subclasses below K
            return s.scalars(sa.select(orm.with_polymorphic(K, "*"))).all(), None
        wp = orm.with_polymorphic(K, "*")
        attr = sub.own_attrs[0]
        col = getattr(getattr(wp, sub.name), attr)
        names = {n.name for n in sub.descendants()}
        exp = [r for r in pop["rows"] if r["cls"] in names and r[attr] is not None]
        return s.scalars(sa.select(wp).where(col.is_not(None))).all(), exp
    O = h.owner_cls
    if option == "of_type_join":
        # entities of class K reached through the owner's relationship
        exp = [r for r in expected_rows(h, pop, node) if r["o_id"] is not None]
        ent = orm.aliased(K) if rng_pick & 1 else K
        target = O.items.of_type(ent)
        return s.scalars(sa.select(ent).select_from(O).join(target)).all(), exp
    if option in ("of_type_selectinload", "of_type_joinedload_wp"):
        # the collection holds *all* items of each owner, each as its most specific class;
        # of_type only widens what is loaded up front
        if option == "of_type_selectinload":
            opt = orm.selectinload(O.items.of_type(K))
        else:
            # joined loading of a with_polymorphic needs aliased=True / flat=True (documented)
            kw = {"flat": True} if rng_pick & 2 else {"aliased": True}
            opt = orm.joinedload(O.items.of_type(orm.with_polymorphic(K, "*", **kw)))
        owners = s.scalars(sa.select(O).options(opt)).unique().all()
        objs = [it for o in owners for it in o.items]
        exp = [r for r in pop["rows"] if r["o_id"] is not None]
        return objs, exp
    raise AssertionError(option)


def shape_key(h):
    return [(n.name, n.parent.name if n.parent else None, n.storage, n.abstract, len(n.own_attrs)) for n in h.nodes]


def run(ctx):
    import random
    import warnings

    import sqlalchemy as sa
    from sqlalchemy import orm

    from vf.gen import ormrig_gl as R

    rng = ctx.rng
    n_hier = ctx.pick({"quick": 10, "thorough": 120})
    kinds = ["joined", "single", "mixed", "concrete"]
    for hi in range(n_hier):
        if not ctx.budget_ok():
            break
        kind = kinds[(hi + ctx.shard) % 4]
        hseed = rng.randrange(1 << 30)
        one_hierarchy(ctx, sa, orm, R, kind, hseed, warnings, random)


def one_hierarchy(ctx, sa, orm, R, kind, hseed, warnings, random):
    hr = random.Random(hseed)
    h = R.build_hierarchy(hr, kind)
    pop = R.gen_hier_population(h, hr, scale=ctx.pick({"quick": 1, "thorough": 2}))
    engine = sa.create_engine("sqlite://")
    R.write_hier_population(h, pop, engine)
    ctx.count("hier_" + kind)
    if any(n.ident in (0, "") and n.parent is not None for n in h.nodes):
        ctx.count("falsy_identity_hierarchies")
    origin = {"kind": kind, "hseed": hseed, "scale": ctx.pick({"quick": 1, "thorough": 2}), "shape": shape_key(h), "knobs": h.knobs}
    def query_round(phase):
        tag = "" if phase == "initial" else "@late"
        for node in h.nodes:
            exp = expected_rows(h, pop, node)
            sub_rows = sum(1 for r in exp if r["cls"] != node.name)
            nontrivial = sub_rows >= 1 or len(exp) >= 2
            for option in options_for(h, node, hr):
                if not ctx.budget_ok():
                    return False
                pick = hr.randrange(1, 1 << 8)
                label = option + tag
                witness = dict(origin, cls=node.name, option=option, pick=pick, phase=phase,
                               late=[(n.name, n.parent.name) for n in h.nodes if n.name.startswith("L")])
                ctx.seen("options", label)
                ctx.case({"shape": origin["shape"], "kind": kind, "knobs": h.knobs, "cls": node.name, "opt": label},
                         nontrivial=nontrivial)
                with warnings.catch_warnings():
                    warnings.simplefilter("ignore")
                    with orm.Session(engine) as s:
                        if option == "get":
                            check_get(ctx, sa, orm, h, pop, node, s, witness, label)
                            continue
                        try:
                            objs, exp_override = run_option(sa, orm, h, pop, node, option, s, pick)
                        except Exception as e:
                            selectin_nodes = [n.name for n in h.nodes if h.knobs.get("polyload_" + n.name) == "selectin"]
                            if (isinstance(e, sa.exc.ArgumentError) and option == "wp_star_coloption" and selectin_nodes
                                    and "does not apply to any of the root entities" in str(e)):
                                # the secondary polymorphic_load="selectin" statement re-applies the
                                # user's options, which name the with_polymorphic entity
                                ctx.violation("wp-entity-option-rejected-by-selectin-polymorphic-subload:ArgumentError",
                                              f"select(with_polymorphic({node.name}, '*')).options(defer(wp.attr)) raised "
                                              f"ArgumentError because {selectin_nodes} use polymorphic_load='selectin': {str(e)[:200]}",
                                              dict(witness, error=str(e)[:500]))
                                continue
                            ctx.violation(f"query-raises-{type(e).__name__}:{kind}/{label}",
                                          f"query at {node.name} ({label}) raised {type(e).__name__}: {str(e)[:300]}",
                                          dict(witness, error=str(e)[:500]))
                            continue
                        ctx.count("queries")
                        if phase != "initial":
                            ctx.count("queries_after_late_subclass")
                        check_objects(ctx, h, pop, node, label, objs, witness, exp_override)
            if len(ctx.samples) < 3 and nontrivial and phase == "initial":
                ctx.sample({"kind": kind, "shape": origin["shape"], "class": node.name,
                            "expected": [(r["cls"], r["id"]) for r in exp]})
        return True

    try:
        if not query_round("initial"):
            return
        # a further single-table subclass is mapped after the hierarchy was configured
        # and used; its rows arrive through plain INSERTs; every class is queried again
        if kind != "concrete" and hr.random() < 0.7 and ctx.budget_ok():
            late = R.add_late_subclass(h, hr)
            rows = R.gen_late_rows(h, late, pop, hr)
            pop["rows"].extend(rows)
            R.write_hier_rows(h, rows, engine)
            ctx.count("late_subclasses")
            origin["shape"] = shape_key(h)
            # (a) same statement shapes as before, compiled cache untouched
            stale = []
            with warnings.catch_warnings():
                warnings.simplefilter("ignore")
                for node in h.nodes:
                    with orm.Session(engine) as s:
                        got = sorted(o.id for o in s.scalars(sa.select(node.cls)))
                    exp_ids = sorted(r["id"] for r in expected_rows(h, pop, node))
                    if got != exp_ids:
                        stale.append((node.name, got, exp_ids))
                engine.clear_compiled_cache()
                still = []
                for name, got, exp_ids in stale:
                    with orm.Session(engine) as s:
                        if sorted(o.id for o in s.scalars(sa.select(h.node(name).cls))) != exp_ids:
                            still.append(name)
            ctx.count("late_cached_statement_checks", len(h.nodes))
            cache_only = [x for x in stale if x[0] not in still]
            if cache_only:
                ctx.violation("late-mapped-subclass-stale-compiled-cache",
                              f"after mapping {late.name}({late.parent.name}) a fresh select() of "
                              f"{[x[0] for x in cache_only]} is served from the compiled cache with the old "
                              f"discriminator IN list: {cache_only[:2]}; correct after engine.clear_compiled_cache()",
                              dict(origin, late=[late.name, late.parent.name], stale=cache_only))
            # (b) statements compiled afresh
            query_round("late")
        if kind != "concrete" and ctx.budget_ok():
            populate_existing_round(ctx, sa, orm, R, h, pop, engine, hr, origin, warnings)
        if kind != "concrete" and ctx.budget_ok() and hr.random() < ctx.pick({"quick": 0.25, "thorough": 0.5}):
            concurrent_round(ctx, sa, orm, R, h, pop, hr, origin, warnings)
    finally:
        engine.dispose()
        h.dispose()


def populate_existing_round(ctx, sa, orm, R, h, pop, engine, hr, origin, warnings):
    """Objects are loaded through the base class and every attribute (sub-table ones too)
    is read; the rows are then changed behind the session's back (plain UPDATEs on its own
    connection); each class is queried again with populate_existing (execution option /
    Query.populate_existing() / get(populate_existing=True) / with_polymorphic subset).
    Every object the query returns must afterwards show the *new* values on attribute
    access - base-table and sub-table attributes alike."""
    kind = h.kind
    with warnings.catch_warnings():
        warnings.simplefilter("ignore")
        with orm.Session(engine) as s:
            held = s.scalars(sa.select(h.root.cls)).all()
            for o in held:
                for a in h.node(type(o).__name__).all_attrs():
                    getattr(o, a)
            # external modification: every attribute of every row changes
            new_rows = {}
            conn = s.connection()
            for r in pop["rows"]:
                n = h.node(r["cls"])
                nr = dict(r)
                for a in n.all_attrs():
                    nr[a] = (r[a] if r[a] is not None else 0) + 100 if a.endswith("_v") else ((r[a] or "") + "!")
                new_rows[r["id"]] = nr
                done = set()
                for anc in n.lineage():
                    t = anc.table
                    if t.name in done:
                        continue
                    done.add(t.name)
                    vals = {a: nr[a] for m in n.lineage() if m.table is t for a in m.own_attrs}
                    if vals:
                        conn.execute(t.update().where(t.c.id == r["id"]).values(**vals))
            newpop = dict(pop, rows=list(new_rows.values()))
            for node in h.nodes:
                subs = node.descendants()[1:]
                for option in ("exec_option", "legacy_populate_existing", "get_populate_existing", "wp_subset_exec_option"):
                    if not ctx.budget_ok():
                        return
                    label = option + "@populate_existing"
                    witness = dict(origin, cls=node.name, option=label)
                    exp = expected_rows(h, newpop, node)
                    try:
                        if option == "exec_option":
                            objs = s.scalars(sa.select(node.cls).execution_options(populate_existing=True)).all()
                        elif option == "legacy_populate_existing":
                            objs = s.query(node.cls).populate_existing().all()
                        elif option == "get_populate_existing":
                            objs = [s.get(node.cls, r["id"], populate_existing=True) for r in exp]
                        else:
                            if not subs:
                                continue
                            wp = orm.with_polymorphic(node.cls, [hr.choice(subs).cls])
                            objs = s.scalars(sa.select(wp).execution_options(populate_existing=True)).all()
                    except Exception as e:
                        ctx.violation(f"query-raises-{type(e).__name__}:{kind}/{label}",
                                      f"{label} at {node.name} raised {type(e).__name__}: {str(e)[:200]}", witness)
                        continue
                    ctx.count("queries")
                    ctx.count("populate_existing_queries")
                    ctx.case({"shape": origin["shape"], "kind": kind, "cls": node.name, "opt": label}, nontrivial=bool(exp))
                    check_objects(ctx, h, newpop, node, label, [o for o in objs if o is not None], witness, exp)
            s.rollback()


def concurrent_round(ctx, sa, orm, R, h, pop, hr, origin, warnings):
    """Two threads execute the same (cache-keyed) polymorphic statement against one Engine
    with a cold compiled cache.  Thread A is paused at its k-th ``Result._getter`` call -
    these happen while row processors are being built, also lazily in the middle of the
    rows when the first row of a subclass arrives - thread B then runs the whole statement,
    A resumes; k is enumerated over every such call.  Both executions must return every row
    as its class with every attribute right (objects are detached first, so nothing can be
    repaired by a later load)."""
    import threading

    from sqlalchemy.engine import result as _result

    path = ctx.tmppath(".db")
    engine = sa.create_engine(f"sqlite:///{path}", connect_args={"check_same_thread": False})
    R.write_hier_population(h, {"owners": pop["owners"], "rows": pop["rows"]}, engine)
    wp = orm.with_polymorphic(h.root.cls, "*")
    stmt = sa.select(wp).order_by(wp.id)
    exp = {r["id"]: r for r in pop["rows"]}
    orig = _result.Result._getter
    state = {"thread": None, "n": 0, "k": None}
    paused, b_done = threading.Event(), threading.Event()

    def hooked(self, key, raiseerr=True):
        if threading.get_ident() == state["thread"]:
            state["n"] += 1
            if state["n"] == state["k"]:
                paused.set()
                b_done.wait(20)
        return orig(self, key, raiseerr)

    def load():
        with orm.Session(engine) as s:
            objs = s.scalars(stmt).all()
            s.expunge_all()
        out = []
        for o in objs:
            vals = {}
            for a in ["id"] + h.node(type(o).__name__).all_attrs():
                try:
                    vals[a] = getattr(o, a)
                except Exception as e:      # detached + unloaded: DetachedInstanceError
                    vals[a] = "raises:" + type(e).__name__
            out.append((type(o).__name__, o.__dict__.get("id"), vals))
        return out

    def judge(who, k, rows):
        got_ids = sorted(x[1] for x in rows if x[1] is not None)
        bad = []
        if got_ids != sorted(exp) or len(rows) != len(exp):
            bad.append(f"ids {[x[1] for x in rows]} != {sorted(exp)}")
        for cname, pk, vals in rows:
            r = exp.get(pk)
            if r is None:
                continue
            if cname != r["cls"]:
                bad.append(f"id={pk} loaded as {cname}, is {r['cls']}")
            for a, v in vals.items():
                if a != "id" and v != r[a]:
                    bad.append(f"{r['cls']}#{pk}.{a} = {v!r}, population says {r[a]!r}")
        if bad:
            ctx.violation(f"concurrent-cached-statement:{h.kind}/{who}",
                          f"execution {who} (other thread interleaved at A's _getter call #{k}): {bad[:3]}",
                          dict(origin, k=k, who=who, bad=bad[:10]))

    _result.Result._getter = hooked
    try:
        with warnings.catch_warnings():
            warnings.simplefilter("ignore")
            # dry run: number of interleaving points of one cold execution
            state.update(thread=threading.get_ident(), n=0, k=None)
            engine.clear_compiled_cache()
            load()
            total = state["n"]
            ctx.count("concurrent_interleaving_points", total)
            ks = list(range(1, total + 1))
            if ctx.quick and len(ks) > 24:
                ks = sorted(hr.sample(ks, 24))
            for k in ks:
                if not ctx.budget_ok():
                    break
                engine.clear_compiled_cache()
                paused.clear()
                b_done.clear()
                res = {}

                def run_a():
                    state.update(thread=threading.get_ident(), n=0, k=k)
                    try:
                        res["A"] = load()
                    except Exception as e:
                        res["A_err"] = e
                    paused.set()

                ta = threading.Thread(target=run_a)
                ta.start()
                if not paused.wait(20):
                    ctx.count("concurrent_watchdog")
                try:
                    res["B"] = load()      # thread B = this thread, while A is parked
                except Exception as e:
                    res["B_err"] = e
                b_done.set()
                ta.join(30)
                ctx.count("concurrent_trials")
                ctx.case({"shape": origin["shape"], "kind": h.kind, "opt": "concurrent", "k": k}, nontrivial=True)
                for who in ("A", "B"):
                    if who + "_err" in res:
                        e = res[who + "_err"]
                        ctx.violation(f"concurrent-cached-statement-raises-{type(e).__name__}:{h.kind}/{who}",
                                      f"{type(e).__name__}: {str(e)[:200]}", dict(origin, k=k, who=who))
                    elif who in res:
                        judge(who, k, res[who])
    finally:
        _result.Result._getter = orig
        engine.dispose()


def check_get(ctx, sa, orm, h, pop, node, s, witness, label="get"):
    names = {n.name for n in node.descendants()}
    for r in pop["rows"]:
        if h.kind == "concrete" and r["cls"] not in names:
            continue   # concrete tables have independent key spaces: nothing is promised
        try:
            o = s.get(node.cls, r["id"])
        except Exception as e:
            ctx.violation(f"get-raises-{type(e).__name__}:{h.kind}/{label}",
                          f"Session.get({node.name}, {r['id']}) raised {type(e).__name__}: {str(e)[:200]}",
                          dict(witness, id=r["id"]))
            continue
        ctx.count("get_checks")
        if r["cls"] in names:
            if o is None:
                ctx.violation(f"get-misses-row:{h.kind}/{label}",
                              f"Session.get({node.name}, {r['id']}) is None but the row is a {r['cls']}",
                              dict(witness, id=r["id"]))
            else:
                check_objects(ctx, h, pop, node, label, [o], dict(witness, id=r["id"]), expect=[r])
        elif o is not None:
            ctx.violation(f"get-returns-foreign-class:{h.kind}/{label}",
                          f"Session.get({node.name}, {r['id']}) returned {type(o).__name__} for a row generated as "
                          f"{r['cls']}, which is not {node.name} or a subclass", dict(witness, id=r["id"]))


def replay(witness):
    """Rebuild the hierarchy + population of a witness: returns (h, pop, engine)."""
    import random

    import sqlalchemy as sa

    from vf.gen import ormrig_gl as R

    hr = random.Random(witness["hseed"])
    h = R.build_hierarchy(hr, witness["kind"])
    pop = R.gen_hier_population(h, hr, scale=witness.get("scale", 1))
    engine = sa.create_engine("sqlite://", poolclass=sa.pool.StaticPool)
    R.write_hier_population(h, pop, engine)
    return h, pop, engine
