"""C43 -- ORM-enabled UPDATE / DELETE keep in-session objects in sync with the database.

Workload: one table ``gm_item`` whose 38 rows contain the full truth table over
{NULL,-7,0,2} x {NULL,-7,0,2} for the columns (x, y) and a palette of strings rich in
``% _ /`` for ``s``.  A case = (UPDATE|DELETE, WHERE criteria, SET clause,
synchronize_session in fetch/evaluate/auto, how the objects were loaded, RETURNING on/off).
The statement is executed through ``Session.execute``; afterwards every object that was
in the session is compared with the rows read by ``exec_driver_sql`` on the same
connection: loaded attributes (``__dict__``, never triggering a load) must equal the row,
an object whose row is gone must not be persistent, an object whose row exists must be.
The transaction is rolled back after each case.

Criteria are built from JSON-able spec trees (see ``build``): comparisons, ``+ - * / %``,
``and_/or_/not_``, ``in_/not_in`` (NULL members, empty list), ``is_/is_not``,
``startswith/endswith`` (+autoescape/escape), concatenation, tuple comparisons / tuple IN,
plus a margin the evaluator does not support (between, like, contains, is_distinct_from)
for which 'evaluate' has to raise and 'auto' has to fall back.  Part A enumerates a family
of criteria exhaustively (every atom, every ordered pair of a reduced atom set under
and/or/not-and/not-or/and-not); part B generates random trees to depth 3, random SET
clauses, load variants and short statement sequences.

Mechanism of a violation is computed from the witness: the smallest sub-expression of
the criteria (or SET value) whose Python evaluation on the witness row differs from what
SQLite computes for that same sub-expression names the mechanism through its root
operator (``evaluator-and-3vl``, ``evaluator-mod-sign``, ``evaluator-notin-null``,
``evaluator-like-wildcards``, ``evaluator-tuple-null`` ...).  Divergences that are not in
the evaluator get structural names (``evaluate-update-unloaded-criteria-attr``,
``update-set-stores-expired-sentinel``, ``update-set-cross-reference-order``).

Widened input classes: string values with line breaks / tabs / unicode separators in the
part a LIKE wildcard covers (WHERE and SET); WHERE / SET values given as named
``bindparam()`` (scalar and expanding) whose values arrive with ``Session.execute(stmt,
params)``; columns that change on every UPDATE without being named in it (``ts``: trigger
+ ``server_onupdate=FetchedValue()``, ``ov``: onupdate SQL expression, ``pv``: Python-side
onupdate) on >= 2 matched, loaded in-session objects.  Besides the ``__dict__`` comparison a
few objects per case get their unloaded / expired attributes accessed, which must reload
values equal to the row.

Guards (documented behaviour the oracle must not demand more than):
* fully expired objects / unloaded attributes have no in-memory value: only ``__dict__``
  is compared; an object that the strategy expired wholesale is not required to have left
  the session although its row is gone (it refreshes or raises on next access);
* 'evaluate' may raise anything for criteria it cannot evaluate: any exception from
  ``Session.execute`` with synchronize_session='evaluate' is accepted (counted);
* division / modulo by zero, modulo of a true-division result (SQLite's ``%`` casts its
  operands to INTEGER), mixed-type comparisons and upper-case letters (SQLite LIKE is
  ASCII case-insensitive) are never generated.
"""
from __future__ import annotations

import itertools

META = {
    "id": "C43",
    "level": "exploration",
    "technique": "execute generated ORM UPDATE/DELETE through Session.execute, compare every in-session object's __dict__ and membership with rows read via exec_driver_sql",
    "level_text": "Every criteria is judged on the complete truth table over {NULL,-7,0,2}^2 (all 16 (x,y) rows are in the session) and on 22 wildcard-rich strings; an enumerated criteria family (all atoms, all ordered pairs of a reduced atom set under 5 connectives) x 3 strategies x UPDATE/DELETE, plus random trees to depth 3, SET expressions, load variants (full, half, load_only, expired, partially expired, dirty), RETURNING on/off and 2-3 statement sequences.",
    "level_note": "SQLite only (RETURNING and pre-SELECT 'fetch' paths both run). Oracle is the database itself; SQL rendering of the criteria is trusted (C01). Backend-specific semantics (x/0, x%0, LIKE case folding, mixed-type comparison) are excluded. Joined-inheritance / multi-table UPDATE..FROM are not generated. The criteria family is exhaustive only for the stated grammar (exhaustive flag left false).",
    "design_ref": "DESIGN.md section 4, C43",
    "rule": "case = (kind, criteria spec, SET spec, strategy, load variant, table); non-trivial = the statement matched at least one row and left at least one row unmatched; distinct by (kind, criteria, SET)",
    "shards": {"quick": 8, "thorough": 16},
    "modes": ["cext"],
    "soft_s": {"quick": 50, "thorough": 800},
    "exhaustive": {"quick": False, "thorough": False},
    "require": ["objects_compared", "attrs_compared", "gone_rows_checked", "evaluate_raised",
                "sync_fetch", "sync_evaluate", "sync_auto", "stmt_update", "stmt_delete",
                "discriminating_statements", "auto_fallback_to_fetch_cases", "attrs_reloaded_compared",
                "statements_with_execute_time_params", "generated_columns_changed_by_update"],
    "assumptions": ["exec_driver_sql on the session's connection shows the in-transaction rows",
                    "SQLite evaluates the rendered criteria per the SQL standard's three-valued logic"],
}

NUM_COLS = ("x", "y")
CMP = ("eq", "ne", "lt", "le", "gt", "ge")
SYNCS = ("fetch", "evaluate", "auto")
UNEVALUABLE = {"between", "distinct", "like", "contains"}
LINE_BREAKS = ("\n", "\r", "\u2028", "\u2029", "\x85", "\x0b", "\x0c")


# --------------------------------------------------------------------------
# spec -> SQLAlchemy expression
# --------------------------------------------------------------------------
def build(spec, cls):
    import operator as pyop

    import sqlalchemy as sa

    k = spec[0]
    if k == "col":
        return getattr(cls, spec[1])
    if k == "lit":
        return sa.literal(spec[1])
    if k == "bin":
        _, op, a, b = spec
        a, b = build(a, cls), build(b, cls)
        return {"add": pyop.add, "sub": pyop.sub, "mul": pyop.mul, "mod": pyop.mod,
                "div": pyop.truediv}[op](a, b)
    if k == "concat":
        return build(spec[1], cls) + build(spec[2], cls)
    if k == "cmp":
        _, op, a, b = spec
        return getattr(pyop, op)(build(a, cls), build(b, cls))
    if k == "in":
        _, neg, a, vals = spec
        a = build(a, cls)
        return a.not_in(list(vals)) if neg else a.in_(list(vals))
    if k == "isnull":
        _, neg, col = spec
        c = getattr(cls, col)
        return c.is_not(None) if neg else c.is_(None)
    if k == "is":
        _, neg, a, b = spec
        a, b = getattr(cls, a), getattr(cls, b)
        return a.is_not(b) if neg else a.is_(b)
    if k == "and":
        return sa.and_(*[build(s, cls) for s in spec[1]])
    if k == "or":
        return sa.or_(*[build(s, cls) for s in spec[1]])
    if k == "not":
        return sa.not_(build(spec[1], cls))
    if k in ("sw", "ew", "contains"):
        _, pat, autoescape, escape = spec
        kw = {}
        if autoescape:
            kw["autoescape"] = True
        if escape:
            kw["escape"] = escape
        meth = {"sw": "startswith", "ew": "endswith", "contains": "contains"}[k]
        return getattr(cls.s, meth)(pat, **kw)
    if k == "like":
        return cls.s.like(spec[1])
    if k == "tcmp":
        _, op, cols, vals = spec
        return getattr(pyop, op)(sa.tuple_(*[getattr(cls, c) for c in cols]), sa.tuple_(*vals))
    if k == "tin":
        _, neg, cols, tuples = spec
        t = sa.tuple_(*[getattr(cls, c) for c in cols])
        tl = [tuple(v) for v in tuples]
        return t.not_in(tl) if neg else t.in_(tl)
    if k == "between":
        return build(spec[1], cls).between(spec[2], spec[3])
    if k == "distinct":
        return build(spec[1], cls).is_distinct_from(build(spec[2], cls))
    if k == "const":
        return sa.true() if spec[1] else sa.false()
    if k == "param":
        # named bindparam WITHOUT a value: the value is supplied at execute time
        _, name, value = spec
        return sa.bindparam(name, type_=sa.String() if isinstance(value, str) else sa.Integer())
    if k == "inparam":
        _, neg, a, name, vals = spec
        a = build(a, cls)
        bp = sa.bindparam(name, expanding=True, type_=sa.Integer())
        return a.not_in(bp) if neg else a.in_(bp)
    raise ValueError(spec)


def spec_params(spec, acc=None):
    """execute-time parameters {name: value} a spec (or tuple of specs) refers to"""
    acc = {} if acc is None else acc
    if isinstance(spec, (list, tuple)):
        if spec and spec[0] == "param":
            acc[spec[1]] = spec[2]
        elif spec and spec[0] == "inparam":
            acc[spec[3]] = list(spec[4])
            spec_params(spec[2], acc)
        else:
            for x in spec:
                spec_params(x, acc)
    return acc


def spec_cols(spec, acc=None):
    """attribute names a spec refers to"""
    acc = set() if acc is None else acc
    if isinstance(spec, (list, tuple)):
        if spec and spec[0] == "col":
            acc.add(spec[1])
        elif spec and spec[0] in ("isnull",):
            acc.add(spec[2])
        elif spec and spec[0] == "is":
            acc.update(spec[2:4])
        elif spec and spec[0] in ("sw", "ew", "contains", "like"):
            acc.add("s")
        elif spec and spec[0] in ("tcmp", "tin"):
            acc.update(spec[2])
        else:
            for s in spec:
                spec_cols(s, acc)
    return acc


def subspecs_postorder(spec):
    """sub-specs that build to an expression, children first"""
    k = spec[0]
    kids = []
    if k in ("bin", "cmp"):
        kids = [spec[2], spec[3]]
    elif k == "concat":
        kids = [spec[1], spec[2]]
    elif k in ("in", "inparam"):
        kids = [spec[2]]
    elif k in ("and", "or"):
        kids = list(spec[1])
    elif k == "not":
        kids = [spec[1]]
    elif k == "between":
        kids = [spec[1]]
    elif k == "distinct":
        kids = [spec[1], spec[2]]
    for c in kids:
        yield from subspecs_postorder(c)
    if k not in ("col", "lit", "const"):
        yield spec


# --------------------------------------------------------------------------
# mechanism naming
# --------------------------------------------------------------------------
def _norm(v):
    """comparison key for one value read in Python and in SQL: booleans as 0/1, floats /
    Decimals rounded to 6 places (the Numeric result processor rounds to 10 digits, which
    must not be mistaken for a divergence of the evaluator)"""
    import decimal

    if isinstance(v, bool):
        return int(v)
    if isinstance(v, (float, decimal.Decimal)):
        return round(float(v), 6)
    return v


def culprit_name(spec, expr, rowvals):
    """stable mechanism name from the culprit sub-expression and the witness row"""
    k = spec[0]
    opname = getattr(getattr(expr, "operator", None), "__name__", None) or k
    opname = opname.rstrip("_")
    if k == "and" or opname == "and":
        return "evaluator-and-3vl"
    if k == "or" or opname == "or":
        return "evaluator-or-3vl"
    if k == "not":
        return "evaluator-not-3vl"
    if k == "bin" and spec[1] == "mod":
        return "evaluator-mod-sign"
    if spec_params(spec):
        return "execute-time-bindparam-ignored"
    if k == "in":
        if any(v is None for v in spec[3]):
            return "evaluator-notin-null"
        if not spec[3]:
            return "evaluator-in-empty-list-null-left"
        return "evaluator-" + opname
    if k in ("sw", "ew"):
        pat, autoescape, escape = spec[1], spec[2], spec[3]
        if any(ch in (rowvals.get("s") or "") for ch in LINE_BREAKS):
            # the value holds a line break in the part a LIKE wildcard has to cover
            return "evaluator-like-line-break-in-value"
        if escape and (len(pat) - len(pat.rstrip(escape))) % 2 == 1:
            # operand ends in a dangling escape character: in SQL it swallows the
            # wildcard that startswith()/endswith() concatenates to the operand
            return "evaluator-like-trailing-escape"
        if autoescape or escape or "%" in pat or "_" in pat:
            return "evaluator-like-wildcards"
        return "evaluator-" + opname
    if k in ("tcmp", "tin"):
        if any(rowvals.get(c) is None for c in spec[2]) or (
            k == "tcmp" and any(v is None for v in spec[3])
        ) or (k == "tin" and any(v is None for t in spec[3] for v in t)):
            return "evaluator-tuple-null"
        return "evaluator-tuple-" + opname
    return "evaluator-" + opname


def localize(rigobj, cls, spec, ids, prefix, variant):
    """first sub-expression (children first) whose Python evaluation differs from SQLite's
    on one of the rows ``ids``.  The pre-state of the failing statement is rebuilt in a
    fresh session (dirty variant re-applied, earlier statements of the sequence replayed
    with synchronize_session=False).  Only used to NAME a violation that the public API
    already exhibited."""
    from sqlalchemy.orm import evaluator as ev

    sa, orm = rigobj.sa, rigobj.orm
    s = orm.Session(rigobj.engine)
    try:
        if variant == "dirty":
            rigobj.load(s, cls, variant, None)
            s.flush()
        for kind, crit, setspec in prefix:
            s.execute(rigobj.statement(cls, kind, crit, setspec), spec_params((crit, setspec)),
                      execution_options={"synchronize_session": False})
        s.expire_all()
        objs = {o.id: o for o in s.scalars(sa.select(cls).where(cls.id.in_(ids)))}
        conn = s.connection()
        try:
            # an evaluator that accepts execute-time parameters is given them, as the ORM would
            comp = ev._EvaluatorCompiler(cls, spec_params(spec))
        except TypeError:
            comp = ev._EvaluatorCompiler(cls)
        for sub in subspecs_postorder(spec):
            try:
                expr = build(sub, cls)
                fn = comp.process(expr)
            except Exception:
                continue
            for i in sorted(objs):
                try:
                    pv = fn(objs[i])
                except Exception:
                    continue
                sv = conn.execute(sa.select(expr).where(cls.id == i), spec_params(sub)).scalar()
                if _norm(pv) != _norm(sv):
                    o = objs[i]
                    rowvals = {c: getattr(o, c) for c in ("x", "y", "s", "n", "m")}
                    return culprit_name(sub, expr, rowvals), {"sub": sub, "python": repr(pv), "sql": repr(sv), "row": rowvals}
        return None, None
    finally:
        s.rollback()
        s.close()


# --------------------------------------------------------------------------
# one case
# --------------------------------------------------------------------------
class Rig:
    def __init__(self, ctx):
        import sqlalchemy as sa
        from sqlalchemy import orm
        from sqlalchemy.pool import StaticPool

        from vf.gen import ormrig_gm as rig

        self.ctx, self.sa, self.orm, self.rig = ctx, sa, orm, rig
        self.engine = sa.create_engine("sqlite://", poolclass=StaticPool)
        rig.Base43.metadata.create_all(self.engine)
        with self.engine.begin() as c:
            for ddl in rig.ITEM_TRIGGERS:
                c.exec_driver_sql(ddl)
        rows = rig.item_rows()
        with self.engine.begin() as c:
            for cls in (rig.Item, rig.ItemNR):
                c.execute(sa.insert(cls.__table__), rows)
        self.nrows = len(rows)
        self.all_ids = [r["id"] for r in rows]
        from sqlalchemy.orm import evaluator as ev

        self.sentinels = (ev._EXPIRED_OBJECT, ev._NO_OBJECT)

    def close(self):
        self.engine.dispose()

    def load(self, s, cls, variant, rng):
        """-> list of (obj, id); objects stay referenced by the caller"""
        sa, orm = self.sa, self.orm
        q = sa.select(cls).order_by(cls.id)
        if variant == "half":
            q = q.where(cls.id % 2 == 0)
        elif variant == "load_only_payload":
            q = q.options(orm.load_only(cls.n, cls.m, cls.u))
        elif variant == "load_only_crit":
            q = q.options(orm.load_only(cls.x, cls.y, cls.s))
        objs = s.scalars(q).all()
        pairs = [(o, o.id) for o in objs]
        if variant == "expired":
            for o, i in pairs:
                if i % 3 == 0:
                    s.expire(o)
        elif variant == "part_expired":
            for o, i in pairs:
                if i % 3 == 0:
                    s.expire(o, ["x"])
                elif i % 3 == 1:
                    s.expire(o, ["n", "s"])
        elif variant == "dirty":
            for o, i in pairs:
                if i % 5 == 0:
                    o.u = "dirty%d" % i
                    o.n = 77
        return pairs

    def statement(self, cls, kind, crit, setspec):
        sa = self.sa
        if kind == "delete":
            st = sa.delete(cls)
        else:
            st = sa.update(cls).values({getattr(cls, k): build(v, cls) for k, v in setspec})
        if crit is not None:
            st = st.where(build(crit, cls))
        return st

    def run_case(self, steps, sync, variant, table, rng=None, sample=False):
        """steps: list of (kind, crit_spec, set_spec) executed in one session, judged
        after each."""
        ctx, sa, orm = self.ctx, self.sa, self.orm
        cls = self.rig.Item if table == "ret" else self.rig.ItemNR
        tname = cls.__table__.name
        s = orm.Session(self.engine)
        to_report = None
        try:
            pairs = self.load(s, cls, variant, rng)
            for stepno, (kind, crit, setspec) in enumerate(steps):
                pre = {i: {k: v for k, v in o.__dict__.items() if k[0] != "_"} for o, i in pairs}
                st = self.statement(cls, kind, crit, setspec)
                ctx.count("stmt_" + kind)
                ctx.count("sync_" + sync)
                raised = None
                rowcount = None
                try:
                    params = spec_params((crit, setspec))
                    if params:
                        ctx.count("statements_with_execute_time_params")
                    res = s.execute(st, params, execution_options={"synchronize_session": sync})
                    rowcount = res.rowcount
                except Exception as e:
                    if sync != "evaluate":
                        raise
                    raised = e
                    ctx.count("evaluate_raised")
                    ctx.seen("evaluate_raise_types", type(e).__name__)
                rows = {r[0]: r for r in s.connection().exec_driver_sql(
                    "SELECT %s FROM %s" % (", ".join(self.rig.ITEM_COLS), tname))}
                if kind == "update":
                    tsi = self.rig.ITEM_COLS.index("ts")
                    ctx.count("generated_columns_changed_by_update",
                              sum(1 for o, i in pairs if "ts" in pre.get(i, {}) and i in rows and rows[i][tsi] != pre[i]["ts"]))
                desc = {"kind": kind, "crit": crit, "set": setspec}
                nontriv = rowcount is not None and 0 < rowcount < self.nrows
                if nontriv:
                    ctx.count("discriminating_statements")
                ctx.case(desc, nontrivial=nontriv)
                if raised is not None:
                    ctx.seen("unevaluatable_kinds", _kinds(crit))
                if sync == "auto" and crit is not None and UNEVALUABLE & set(_kinds(crit).split(",")):
                    ctx.count("auto_fallback_to_fetch_cases")
                bad = self.judge(s, pairs, rows, pre)
                self.ncase = getattr(self, "ncase", 0) + 1
                if not bad and raised is None and (kind == "update" or self.ncase % 4 == 0):
                    bad = self.judge_reload(s, pairs, rows, limit=2)
                if sample:
                    ctx.sample({"steps": steps, "sync": sync, "variant": variant, "table": table,
                                "rowcount": rowcount, "raised": type(raised).__name__ if raised else None})
                if bad:
                    to_report = (bad, steps, stepno, sync, variant, table, pre, rows, raised)
                    break
                if raised is not None:
                    break
        finally:
            s.rollback()
            s.close()
        if to_report is not None:     # after the rollback: localisation needs the pristine table
            self.report(*to_report)

    def judge(self, s, pairs, rows, pre):
        ctx, sa = self.ctx, self.sa
        cols = self.rig.ITEM_COLS
        bad = []
        for o, i in pairs:
            st = sa.inspect(o)
            ctx.count("objects_compared")
            row = rows.get(i)
            if row is None:
                ctx.count("gone_rows_checked")
                if st.persistent:
                    if st.expired or not any(k in o.__dict__ for k in cols):
                        ctx.count("guard_expired_object_of_deleted_row")
                    else:
                        bad.append({"id": i, "what": "row-gone-object-persistent"})
                continue
            if not st.persistent:
                bad.append({"id": i, "what": "row-exists-object-not-persistent",
                            "state": "deleted" if st.deleted else "detached" if st.detached else "other"})
                continue
            d = o.__dict__
            diffs = {}
            for ci, c in enumerate(cols):
                if c in d:
                    ctx.count("attrs_compared")
                    v = d[c]
                    if v is not row[ci] and _norm(v) != _norm(row[ci]) or any(v is z for z in self.sentinels):
                        diffs[c] = {"memory": repr(v), "db": repr(row[ci])}
            if diffs:
                bad.append({"id": i, "what": "attr-mismatch", "diffs": diffs,
                            "sentinel": any(any(o.__dict__.get(c) is z for z in self.sentinels) for c in diffs)})
        return bad

    def judge_reload(self, s, pairs, rows, limit=3):
        """the other half of 'equals the database': attributes that are NOT loaded (expired by
        the synchronisation, or never loaded) must come back equal to the row when accessed.
        A few objects per case only (each costs a SELECT); matched objects first."""
        ctx, sa = self.ctx, self.sa
        cols = self.rig.ITEM_COLS
        cand = [(o, i) for o, i in pairs if i in rows and sa.inspect(o).persistent
                and any(c not in o.__dict__ for c in cols)]
        cand.sort(key=lambda p: (not any(c in p[0].__dict__ for c in cols), p[1]))
        bad = []
        for o, i in cand[:limit]:
            missing = [c for c in cols if c not in o.__dict__]
            diffs = {}
            for c in missing:
                v = getattr(o, c)
                ctx.count("attrs_reloaded_compared")
                if _norm(v) != _norm(rows[i][cols.index(c)]):
                    diffs[c] = {"memory": repr(v), "db": repr(rows[i][cols.index(c)])}
            if diffs:
                bad.append({"id": i, "what": "reloaded-attr-mismatch", "diffs": diffs, "sentinel": False})
        return bad

    def report(self, bad, steps, stepno, sync, variant, table, pre, rows, raised):
        ctx, sa, orm = self.ctx, self.sa, self.orm
        cls = self.rig.Item if table == "ret" else self.rig.ItemNR
        kind, crit, setspec = steps[stepno]
        first = bad[0]
        mech = detail = generated_mech = None
        ids = [b["id"] for b in bad][:6]
        allids = [b["id"] for b in bad]
        prefix = steps[:stepno]
        if raised is not None:
            mech = "evaluate-raised-but-session-out-of-sync"
        elif any(b.get("sentinel") for b in bad):
            mech = "update-set-stores-expired-sentinel"
        else:
            critcols = spec_cols(crit) if crit is not None else set()
            unloaded = [b["id"] for b in bad if critcols - set(pre.get(b["id"], {}))]
            if sync in ("evaluate", "auto") and kind == "update" and unloaded:
                mech = "evaluate-update-unloaded-criteria-attr"
            else:
                server = set(self.rig.SERVER_CHANGED_COLS)
                diffkeys = set()
                for b in bad:
                    diffkeys.update(b.get("diffs", {}))
                if kind == "update" and diffkeys and diffkeys <= server and all(b["what"] == "attr-mismatch" for b in bad):
                    # only columns the database changes by itself on UPDATE are stale, SET targets are
                    # fine: matching worked, expiring / prefetching the generated columns did not.
                    # Was at least one matched in-session object handled correctly?
                    badids = {b["id"] for b in bad}
                    cols = self.rig.ITEM_COLS
                    # (every case starts with ts = 0 on all rows: ts > 0 <=> the row was matched)
                    handled = [i for i in pre if i not in badids and i in rows and rows[i][cols.index("ts")]]
                    what = "server-onupdate" if "ts" in diffkeys else "onupdate"
                    generated_mech = "%s-attribute-not-expired-on-%s-matched-objects" % (what, "later" if handled else "any")
        if mech is None:
            # rebuild the pre-state, localize in criteria, then in the SET values
            if crit is not None and sync in ("evaluate", "auto"):
                mech, detail = localize(self, cls, crit, allids, prefix, variant)
            if mech is None and kind == "update":
                keys = set()
                for b in bad:
                    keys.update(b.get("diffs", {}))
                for k, v in setspec:
                    if k in keys and v[0] not in ("lit", "col"):
                        mech, detail = localize(self, cls, v, allids, prefix, variant)
                        if mech:
                            break
        if mech is None and generated_mech is not None:
            # no evaluator divergence explains it (a mis-evaluated match whose SET happens to
            # leave the targets unchanged would also show only generated columns)
            mech = generated_mech
        if mech is None and kind == "update":
            targets = {k for k, _ in setspec}
            cross = any((spec_cols(v) & targets) - {k} for k, v in setspec)
            if cross:
                mech = "update-set-cross-reference-order"
        if mech is None:
            mech = "sync-%s-%s-%s" % (sync, kind, first["what"])
        ops = sorted(_kinds(crit).split(",")) if crit is not None else []
        ctx.violation(
            mech,
            "%s sync=%s variant=%s table=%s crit=%s set=%s :: %s" % (kind, sync, variant, table, crit, setspec, bad[:2]),
            {"steps": steps, "failed_step": stepno, "sync": sync, "variant": variant, "table": table,
             "bad": bad[:6], "culprit": detail, "criteria_operator_set": ops,
             "pre": {str(i): pre.get(i) for i in ids}, "rows_after": {str(i): rows.get(i) for i in ids}},
        )


def _kinds(spec, acc=None):
    top = acc is None
    acc = set() if top else acc
    if isinstance(spec, (list, tuple)) and spec and isinstance(spec[0], str):
        k = spec[0]
        if k == "bin" or k == "cmp" or k == "tcmp":
            acc.add(k + ":" + spec[1])
        elif k in ("in", "isnull", "is", "tin"):
            acc.add(("not_" if spec[1] else "") + k)
        elif k not in ("col", "lit"):
            acc.add(k)
        for s in spec[1:]:
            if isinstance(s, (list, tuple)):
                if s and isinstance(s[0], str):
                    _kinds(s, acc)
                else:
                    for t in s:
                        _kinds(t, acc)
    return ",".join(sorted(acc)) if top else acc


# --------------------------------------------------------------------------
# generators
# --------------------------------------------------------------------------
def X():
    return ("col", "x")


def Y():
    return ("col", "y")


def L(v):
    return ("lit", v)


def atoms_full():
    out = []
    for op in CMP:
        for lit in (0, 2, -7):
            out.append(("cmp", op, X(), L(lit)))
        out.append(("cmp", op, X(), Y()))
    for c in NUM_COLS:
        out.append(("isnull", False, c))
        out.append(("isnull", True, c))
    vals = (None, -7, 0, 2)
    lists = [()] + [(a,) for a in vals] + list(itertools.combinations(vals, 2)) + [(None, -7, 2)]
    for lst in lists:
        out.append(("in", False, X(), lst))
        out.append(("in", True, X(), lst))
    for k in (3, -3, 2):
        for r in (-1, 0, 1, 2):
            out.append(("cmp", "eq", ("bin", "mod", X(), L(k)), L(r)))
    out.append(("cmp", "gt", ("bin", "add", X(), Y()), L(0)))
    out.append(("cmp", "eq", ("bin", "sub", X(), Y()), L(0)))
    out.append(("cmp", "lt", ("bin", "mul", X(), Y()), L(0)))
    out.append(("cmp", "lt", ("bin", "div", X(), L(2)), L(0)))
    out.append(("cmp", "ge", ("bin", "div", Y(), L(-7)), L(1)))
    out.append(("cmp", "le", ("bin", "mod", Y(), L(3)), ("bin", "mod", X(), L(3))))
    out.append(("is", False, "x", "y"))
    out.append(("is", True, "x", "y"))
    # strings
    for pat in ("a", "a%c", "a_c", "ab", "%", "_", "a/", "a/%c", "c", "bc", "%c", "", "cd", "é",
                "a\n", "\nc", "\n", "a_", "a\n%", "a\r"):
        for kind in ("sw", "ew"):
            out.append((kind, pat, False, None))
            out.append((kind, pat, True, None))
        out.append(("sw", pat, False, "/"))
        out.append(("ew", pat, True, "/"))
    out.append(("cmp", "eq", ("col", "s"), L("abc")))
    out.append(("cmp", "lt", ("col", "s"), L("abc")))
    out.append(("cmp", "ge", ("col", "s"), L("a_c")))
    out.append(("cmp", "eq", ("concat", ("col", "s"), L("d")), L("a%cd")))
    out.append(("cmp", "eq", ("concat", ("col", "s"), ("col", "u")), L("abu3")))
    # tuples
    for op in ("eq", "ne", "lt", "ge"):
        out.append(("tcmp", op, ("x", "y"), (0, 2)))
        out.append(("tcmp", op, ("x", "y"), (2, -7)))
    out.append(("tin", False, ("x", "y"), ((0, 2), (2, 2), (-7, 0))))
    out.append(("tin", True, ("x", "y"), ((0, 2), (2, 2), (-7, 0))))
    # values supplied at execute time
    out.append(("cmp", "eq", X(), ("param", "px", 2)))
    out.append(("cmp", "gt", Y(), ("param", "py", -7)))
    out.append(("cmp", "le", ("bin", "add", X(), ("param", "pd", 2)), Y()))
    out.append(("cmp", "eq", ("col", "s"), ("param", "ps", "a\nc")))
    out.append(("inparam", False, X(), "plist", (0, 2)))
    out.append(("inparam", True, Y(), "plist", (-7,)))
    # margin: not evaluable
    out.append(("between", X(), -7, 0))
    out.append(("distinct", X(), Y()))
    out.append(("like", "a%c"))
    out.append(("contains", "%", True, None))
    out.append(("contains", "b", False, None))
    return out


def atoms_reduced():
    return [
        ("cmp", "gt", X(), L(0)),
        ("cmp", "le", X(), L(0)),
        ("cmp", "eq", Y(), L(2)),
        ("cmp", "ne", Y(), L(-7)),
        ("cmp", "lt", X(), Y()),
        ("isnull", False, "x"),
        ("isnull", True, "y"),
        ("in", False, Y(), (0, 2)),
        ("in", True, X(), (0, -7)),
        ("cmp", "gt", Y(), L(100)),     # always false / NULL
        ("cmp", "lt", X(), L(100)),     # always true / NULL
        ("cmp", "ge", ("bin", "add", X(), Y()), L(0)),
    ]


CONNECTIVES = (
    lambda a, b: ("and", (a, b)),
    lambda a, b: ("or", (a, b)),
    lambda a, b: ("not", ("and", (a, b))),
    lambda a, b: ("not", ("or", (a, b))),
    lambda a, b: ("and", (a, ("not", ("or", (b, a))))),
)

SETS_BASIC = (
    (("n", L(99)),),
    (("n", ("bin", "add", ("col", "n"), L(1))),),
    (("n", ("col", "x")), ("u", L("w"))),
)

SETS_MORE = (
    (("n", ("param", "pn", 55)),),
    (("n", ("bin", "add", ("col", "n"), ("param", "pinc", 3))), ("u", ("param", "pu", "a\nb"))),
    (("u", ("concat", ("col", "s"), L("\nz"))),),
    (("s", L("a\nc")),),
    (("n", ("bin", "add", X(), Y())),),
    (("n", ("bin", "mod", X(), L(3))),),
    (("n", ("bin", "mod", ("col", "m"), L(7))),),
    (("n", ("bin", "add", ("col", "n"), L(1))), ("m", ("col", "n"))),
    (("m", ("bin", "add", ("col", "m"), L(1))), ("n", ("col", "m"))),
    (("u", ("concat", ("col", "s"), L("z"))),),
    (("x", L(0)),),
    (("x", ("bin", "sub", L(0), X())), ("n", L(None))),
    (("s", L("a%c")), ("y", Y())),
    (("n", ("bin", "mul", ("col", "n"), L(-2))), ("m", L(5))),
    # no true division in SET: a REAL stored in the INTEGER columns would later feed '%'
)

VARIANTS = ("full", "half", "load_only_payload", "load_only_crit", "expired", "part_expired", "dirty")


def rand_num(rng, depth, allow_div=True):
    r = rng.random()
    if depth <= 0 or r < 0.45:
        return rng.choice([X(), Y(), X(), Y(), L(rng.choice([0, 2, -7, 1, 3, -3]))])
    op = rng.choice(["add", "sub", "mul", "mod", "div"] if allow_div else ["add", "sub", "mul", "mod"])
    # guard: SQLite's % casts both operands to INTEGER (backend quirk), so a modulo never
    # gets a true-division (float) operand; '+ - *' propagate the restriction downwards
    a = rand_num(rng, depth - 1, allow_div and op != "mod")
    if op in ("mod", "div"):
        b = L(rng.choice([3, -3, 2, -7]))
    else:
        b = rand_num(rng, depth - 1, allow_div and op != "mod")
    if a[0] == "lit" and b[0] == "lit":
        a = rng.choice([X(), Y()])
    if op == "div" and a[0] != "col":
        op = "add"          # keep true division on plain integer columns only
    return ("bin", op, a, b)


def rand_bool(rng, depth, atoms):
    r = rng.random()
    if depth <= 0 or r < 0.3:
        q = rng.random()
        if q < 0.55:
            return rng.choice(atoms)
        a, b = rand_num(rng, 2), rand_num(rng, 1)
        if a[0] == "lit" and b[0] == "lit":
            a = X()
        return ("cmp", rng.choice(CMP), a, b)
    if r < 0.55:
        return ("and", tuple(rand_bool(rng, depth - 1, atoms) for _ in range(rng.choice([2, 2, 3]))))
    if r < 0.8:
        return ("or", tuple(rand_bool(rng, depth - 1, atoms) for _ in range(rng.choice([2, 2, 3]))))
    return ("not", rand_bool(rng, depth - 1, atoms))


def run(ctx):
    rig = Rig(ctx)
    rng = ctx.rng
    try:
        full = atoms_full()
        red = atoms_reduced()
        # ---- part A: enumerated family ------------------------------------
        idx = 0
        family = [("atom", a) for a in full]
        family += [("neg", ("not", a)) for a in full]
        for a in red:
            for b in red:
                if a is b:
                    continue
                for cn in CONNECTIVES:
                    family.append(("pair", cn(a, b)))
        family.append(("none", None))
        ctx.count("family_size", len(family) if ctx.shard == 0 else 0)
        for fi, (tag, crit) in enumerate(family):
            if not ctx.budget_ok():
                break
            for kind in ("update", "delete"):
                for sync in SYNCS:
                    idx += 1
                    if not ctx.mine(idx):
                        continue
                    setspec = SETS_BASIC[fi % len(SETS_BASIC)] if kind == "update" else ()
                    table = "ret" if (fi + idx) % 4 else "noret"
                    variant = "full" if fi % 3 else "half"
                    rig.run_case([(kind, crit, setspec)], sync, variant, table, rng,
                                 sample=(ctx.shard == 0 and idx in (9, 1201)))
        ctx.count("family_done")
        # ---- part B: SET expressions x load variants -----------------------
        crits_b = [None, ("cmp", "eq", X(), ("param", "px", 2)), ("cmp", "gt", X(), L(0)), ("cmp", "le", Y(), L(0)), ("isnull", True, "x"),
                   ("or", (("cmp", "eq", X(), L(2)), ("isnull", False, "y"))),
                   ("sw", "a", False, None)]
        for si, setspec in enumerate(SETS_BASIC + SETS_MORE):
            for ci, crit in enumerate(crits_b):
                for vi, variant in enumerate(VARIANTS):
                    for sync in SYNCS:
                        idx += 1
                        if not ctx.mine(idx) or not ctx.budget_ok():
                            continue
                        table = "ret" if (si + ci + vi) % 3 else "noret"
                        rig.run_case([("update", crit, setspec)], sync, variant, table, rng)
        for ci, crit in enumerate(crits_b + [("cmp", "eq", ("bin", "mod", X(), L(3)), L(2))]):
            for variant in VARIANTS:
                for sync in SYNCS:
                    idx += 1
                    if not ctx.mine(idx) or not ctx.budget_ok():
                        continue
                    rig.run_case([("delete", crit, ())], sync, variant, "ret" if ci % 2 else "noret", rng)
        ctx.count("variants_done")
        # ---- part C: random trees, sequences -------------------------------
        nrand = ctx.pick({"quick": 400, "thorough": 12000})
        evaluable = [a for a in full if a[0] not in ("between", "distinct", "like", "contains")]
        for k in range(nrand):
            if not ctx.budget_ok():
                break
            nsteps = rng.choice([1, 1, 1, 2, 3])
            steps = []
            for _ in range(nsteps):
                kind = rng.choice(["update", "update", "delete"])
                crit = rand_bool(rng, rng.choice([1, 2, 2, 3]), evaluable if rng.random() < 0.9 else full)
                setspec = rng.choice(SETS_BASIC + SETS_MORE) if kind == "update" else ()
                steps.append((kind, crit, setspec))
            sync = rng.choice(SYNCS)
            variant = rng.choice(VARIANTS) if rng.random() < 0.4 else "full"
            rig.run_case(steps, sync, variant, rng.choice(["ret", "ret", "noret"]), rng, sample=(k == 0))
        ctx.count("random_done")
    finally:
        rig.close()
