"""C44 -- version counters prevent lost updates.

Workload: 2 (enumerated) or 3 (random) Sessions on ONE SQLite file (busy timeout 0),
each with a short operation sequence over two shared rows; every interleaving of the
sequences at operation granularity is executed in a single thread.  Operations: load,
refresh, modify payload / other column (unique value per write), delete, flush, commit,
rollback, and NULLing an attribute by assignment or by ``del obj.attr``.  Six mappings:
single table with client-side integer counter, ``version_id_generator`` callable (uuid),
server-side counter (trigger, ``version_id_generator=False``); a class mapped to
``join(a, b)`` without inheritance with the version column in ``a`` resp. in ``b``; joined
table inheritance with the counter in the base table - so that a flush's net changes can
lie entirely in the table that does NOT hold the version column.  Both
``expire_on_commit`` settings.  (Quick: every pair x interleaving once, mapping and
expire_on_commit rotate with index and seed; thorough: all combinations.)

Mechanism names carry where the change was: ``-other-table-only`` when every changed column
of the row lives outside the version table, ``-other-table-attribute-delete`` when those
columns were all NULLed with ``del obj.attr``.

Oracle (per-row version ledger).  Before a flush the harness reads the rows *through the
flushing session's own connection* (committed state + its own uncommitted writes) and
knows which version every pending object has loaded (``obj.__dict__['ver']``; unknown when
the object is expired, in which case the flush itself loads the current version):

* loaded version != current version (or row gone) for a pending UPDATE/DELETE  =>  the flush
  must fail (``StaleDataError``; ``ObjectDeletedError`` when the object was expired and the
  row is gone), unless another session holds SQLite's write lock, in which case
  ``database is locked`` is the legitimate abort;
* a failed flush changes nothing: after ``rollback()`` the committed rows read by an
  independent observer connection equal those before the flush;
* a successful flush changed the version of every updated row (int / server: exactly +1),
  wrote the unique payload, and removed every deleted row;
* at the end the committed rows equal a serial model that applies exactly the writes of
  the transactions that committed successfully, in commit order (unique payloads identify
  a lost or phantom write).

Guards: sessions run with autoflush off (an implicit flush would blur the operation
granularity); a ``StaleDataError`` the oracle did not predict is only counted
(``unpredicted_stale``), the property does not promise success; pending changes on an
object that the session itself dropped (``get()`` of an expired object whose row is gone)
are not expected to be flushed.  Statement-level
interleaving inside one flush is not generated: SQLite's database-level write lock makes
it unreachable.
"""
from __future__ import annotations

import enum
import itertools

META = {
    "id": "C44",
    "level": "exploration",
    "technique": "enumerate all operation-level interleavings of 2 sessions' op sequences (random for 3 sessions) on one SQLite file; per-row version ledger with unique payloads, observer connection for committed state",
    "level_text": "All interleavings of every ordered pair from a catalogue of per-session op sequences (length <= 4) over two shared rows, for three version generation styles and both expire_on_commit settings, plus random 3-session schedules; each flush outcome is predicted from loaded-vs-current versions and checked, and final rows are compared with a serial model of the committed transactions.",
    "level_note": "SQLite only; concurrency is at operation granularity in one thread (two connections, database-level write lock, busy timeout 0). 'database is locked' is modelled as a legitimate abort. Server-side versioning uses an AFTER UPDATE trigger and post-fetch SELECT (SQLite RETURNING cannot see trigger effects). Joined-table inheritance versioning is not generated.",
    "design_ref": "DESIGN.md section 4, C44",
    "rule": "case = (style, expire_on_commit, op sequences, interleaving); non-trivial = at least one flush carried a pending UPDATE/DELETE while another session had written the same row since this session loaded it (a real conflict) ; distinct by full descriptor",
    "shards": {"quick": 8, "thorough": 16},
    "modes": ["cext"],
    "soft_s": {"quick": 50, "thorough": 800},
    "exhaustive": {"quick": False, "thorough": True},
    "require": ["flushes_with_dml", "stale_predicted", "stale_raised", "successful_updates",
                "successful_deletes", "locked_aborts", "versioned_update_stmts",
                "versioned_delete_stmts", "final_states_compared", "interleavings",
                "flushes_changing_only_the_non_version_table", "stale_predicted_other_table_only",
                "version_advanced_for_other_table_change", "attribute_nulled_by_del", "attribute_nulled_by_none"],
    "assumptions": ["reads through the flushing session's connection show committed rows plus that session's own uncommitted writes",
                    "pysqlite legacy transaction control: SELECT does not open a transaction, so a session's loaded state can go stale"],
}

ROWS = (1, 2)

# per-session sequences (catalogue); every sequence ends its transaction
SEQS = [
    [("mod", 1, "payload"), ("commit",)],
    [("load", 1), ("mod", 1, "payload"), ("commit",)],
    [("load", 1), ("mod", 1, "other"), ("flush",), ("commit",)],
    [("load", 1), ("del", 1), ("commit",)],
    [("load", 1), ("load", 2), ("mod", 2, "payload"), ("commit",)],
    [("load", 1), ("mod", 1, "payload"), ("mod", 2, "other"), ("commit",)],
    [("load", 1), ("mod", 1, "payload"), ("rollback",)],
    [("load", 1), ("refresh", 1), ("mod", 1, "payload"), ("commit",)],
    [("load", 1), ("mod", 1, "payload"), ("flush",), ("rollback",)],
    [("load", 1), ("commit",), ("mod", 1, "other"), ("commit",)],
    [("load", 2), ("del", 2), ("flush",), ("commit",)],
    [("load", 1), ("mod", 1, "payload"), ("commit",), ("mod", 1, "payload"), ("commit",)],
    [("load", 1), ("mod", 1, "other"), ("commit",)],
    [("load", 1), ("delattr", 1, "other"), ("commit",)],
    [("load", 1), ("setnone", 1, "other"), ("commit",)],
    [("load", 1), ("delattr", 1, "payload"), ("mod", 2, "other"), ("commit",)],
    [("load", 1), ("setnone", 1, "payload"), ("flush",), ("mod", 1, "other"), ("commit",)],
]
QUICK_SEQS = [0, 1, 2, 3, 5, 8, 9, 12, 13, 14]
STYLES = ("int", "uuid", "server", "join_a", "join_b", "inh")


def interleavings(lens):
    """all merges of sequences with the given lengths, as tuples of session indexes"""
    total = sum(lens)

    def rec(remaining, acc):
        if len(acc) == total:
            yield tuple(acc)
            return
        for i, r in enumerate(remaining):
            if r:
                remaining[i] -= 1
                acc.append(i)
                yield from rec(remaining, acc)
                acc.pop()
                remaining[i] += 1

    yield from rec(list(lens), [])


class Locked(Exception):
    pass


class World:
    def __init__(self, ctx, style):
        import sqlalchemy as sa
        from sqlalchemy import orm
        from sqlalchemy.pool import NullPool

        from vf.gen import ormrig_gm as rig
        from vf.mon import dbapi_spy

        self.ctx, self.sa, self.orm, self.rig, self.style = ctx, sa, orm, rig, style
        self.cls = rig.VERSIONED[style]
        self.spec = rig.VSTYLE[style]
        self.ver_cols = set(self.spec["ver_cols"])
        self.path = ctx.tmppath(".db")
        self.spy = dbapi_spy.Spy()
        self.engine = self.spy.engine(self.path, poolclass=NullPool, connect_kw={"timeout": 0})
        md = rig.Base44.metadata
        md.create_all(self.engine, tables=[md.tables[t] for t in self.spec["tables"]])
        if style == "server":
            with self.engine.begin() as c:
                c.exec_driver_sql(rig.VSERVER_DDL)
        self.obs = dbapi_spy.observer(self.path)
        self.uniq = itertools.count(1)

    def close(self):
        self.obs.close()
        self.engine.dispose()

    def reset(self):
        v0 = "'v0'" if self.style == "uuid" else "1"
        for t in reversed(self.spec["tables"]):
            self.obs.execute("DELETE FROM %s" % t)
        for r in ROWS:
            for q in self.spec["inserts"]:
                self.obs.execute(q % {"r": r, "v": v0})
        self.spy.clear()
        return {r: {"payload": "p0-%d" % r, "other": "o0-%d" % r, "updates": 0} for r in ROWS}

    def committed(self):
        return {r[0]: r for r in self.obs.execute(self.spec["select"]).fetchall()}

    def table_ids(self):
        """ids present in each underlying table (a multi-table row must live or die as a whole)"""
        return {t: sorted(r[0] for r in self.obs.execute("SELECT id FROM %s" % t).fetchall()) for t in self.spec["tables"]}


class Sess:
    def __init__(self, world, name, expire_on_commit):
        self.w = world
        self.name = name
        self.s = world.orm.Session(world.engine, autoflush=False, expire_on_commit=expire_on_commit)
        self.objs = {}
        self.pending_mod = {}     # row -> {col: value}
        self.pending_kind = {}    # row -> {col: "set" | "none" | "del"}
        self.pending_del = set()
        self.txn_writes = []      # writes flushed in the open transaction
        self.has_write_lock = False

    def view(self):
        """rows as this session's connection sees them"""
        return {r[0]: r for r in self.s.connection().exec_driver_sql(self.w.spec["select"]).fetchall()}

    def obj(self, r):
        o = self.objs.get(r)
        if o is None:
            o = self.s.get(self.w.cls, r)
            if o is not None:
                self.objs[r] = o
        return o

    def loaded_ver(self, r):
        o = self.objs.get(r)
        if o is None:
            return None
        return o.__dict__.get("ver")

    def where(self, r):
        """mechanism suffix computed from the pending change of row r: which table the
        changed columns live in relative to the version column, and how they were changed"""
        cols = self.pending_mod.get(r) or {}
        if cols and all(c not in self.w.ver_cols for c in cols):
            kinds = {self.pending_kind.get(r, {}).get(c) for c in cols}
            return "-other-table-attribute-delete" if kinds == {"del"} else "-other-table-only"
        return ""

    def discard(self):
        self.pending_mod.clear()
        self.pending_kind.clear()
        self.pending_del.clear()
        self.txn_writes = []
        self.has_write_lock = False
        sa = self.w.sa
        # objects deleted by someone else / detached: drop refs that are no longer persistent
        for r, o in list(self.objs.items()):
            st = sa.inspect(o)
            if not st.persistent:
                del self.objs[r]


def run_case(ctx, w, style, eoc, seqs, order, sample=False):
    sa, orm = w.sa, w.orm
    from sqlalchemy import exc as sa_exc
    from sqlalchemy.orm import exc as orm_exc

    model = w.reset()
    sessions = [Sess(w, "S%d" % i, eoc) for i in range(len(seqs))]
    pos = [0] * len(seqs)
    desc = {"style": style, "eoc": eoc, "seqs": seqs, "order": list(order)}
    conflict = False
    trace = []
    violated = []

    def vio(mech, msg, extra=None):
        violated.append(mech)
        ctx.violation(mech, "%s :: style=%s eoc=%s seqs=%s order=%s" % (msg, style, eoc, seqs, list(order)),
                      {"case": desc, "trace": trace[-12:], "detail": extra})

    def writer_other(S):
        return any(T is not S and T.has_write_lock for T in sessions)

    def do_flush(S, then_commit):
        nonlocal conflict
        # only what is still attached counts: Session.get() on an expired object whose row
        # is gone removes it from the session (the ORM noticed the deletion), and with it
        # the attribute changes made on it (guard)
        for r in list(S.pending_mod) + list(S.pending_del):
            o = S.objs.get(r)
            if o is None or sa.inspect(o).session is not S.s:
                S.pending_mod.pop(r, None)
                S.pending_del.discard(r)
                ctx.count("pending_dropped_object_left_session")
        pend_rows = set(S.pending_mod) | set(S.pending_del)
        before_committed = w.committed()
        if not pend_rows:
            S.s.flush()
            if then_commit:
                commit(S)
            return "noop"
        ctx.count("flushes_with_dml")
        view = S.view()
        stale, gone = [], []
        for r in sorted(pend_rows):
            lv = S.loaded_ver(r)
            if r not in view:
                gone.append(r)
            elif lv is not None and view[r][1] != lv:
                stale.append(r)
        must_fail = bool(stale or gone)
        other_only = [r for r in sorted(S.pending_mod) if r not in S.pending_del and S.where(r)]
        if other_only:
            ctx.count("flushes_changing_only_the_non_version_table")
        if must_fail:
            ctx.count("stale_predicted")
            conflict = True
            if any(r in other_only for r in stale):
                ctx.count("stale_predicted_other_table_only")
        lock_conflict = writer_other(S)
        mark = w.spy.mark()
        try:
            S.s.flush()
            outcome = "ok"
        except orm_exc.StaleDataError:
            outcome = "stale"
        except orm_exc.ObjectDeletedError:
            outcome = "object_deleted"
        except sa_exc.OperationalError as e:
            if "database is locked" not in str(e):
                raise
            outcome = "locked"
        for ev in w.spy.since(mark, kinds=("execute", "executemany")):
            sql = ev.sql
            if sql.startswith("UPDATE") and ".ver = ?" in sql:
                ctx.count("versioned_update_stmts")
            elif sql.startswith("DELETE") and ".ver = ?" in sql:
                ctx.count("versioned_delete_stmts")
        trace.append((S.name, "flush", outcome, {"stale": stale, "gone": gone, "lock_conflict": lock_conflict}))
        ctx.seen("flush_outcomes", outcome + ("+lockconf" if lock_conflict else "") + ("+mustfail" if must_fail else ""))
        if outcome == "ok":
            if lock_conflict:
                vio("flush-succeeded-under-foreign-write-lock", "flush succeeded while %s another session holds the write lock" % S.name)
            if must_fail:
                kinds = sorted({"delete" if r in S.pending_del else "update" for r in stale + gone})
                sfx = next((S.where(r) for r in stale + gone if r not in S.pending_del and S.where(r)), "")
                vio("stale-%s-succeeded%s" % ("-".join(kinds), sfx),
                    "%s flushed rows %s with loaded versions %s but current rows were %s" % (
                        S.name, stale + gone, {r: S.loaded_ver(r) for r in stale + gone}, {r: view.get(r) for r in stale + gone}),
                    {"view_before": view})
            view2 = S.view()
            for r in sorted(S.pending_del):
                if r in view2:
                    vio("delete-flushed-but-row-remains", "%s deleted row %s, still present" % (S.name, r))
                else:
                    ctx.count("successful_deletes")
                    S.txn_writes.append(("del", r))
            for r, cols in sorted(S.pending_mod.items()):
                if r in S.pending_del:
                    continue
                if r not in view2 or r not in view:
                    if not must_fail:
                        vio("update-flushed-but-row-missing", "%s updated row %s, missing" % (S.name, r))
                    continue
                old, new = view[r], view2[r]
                okver = (new[1] != old[1]) if style == "uuid" else (new[1] == old[1] + 1)
                if not okver:
                    vio("update-did-not-advance-version" + S.where(r),
                        "%s updated row %s (%s): version %r -> %r" % (S.name, r, S.pending_kind.get(r), old[1], new[1]),
                        {"before": old, "after": new, "changed": cols, "how": S.pending_kind.get(r)})
                elif S.where(r):
                    ctx.count("version_advanced_for_other_table_change")
                exp = {"payload": cols.get("payload", old[2]), "other": cols.get("other", old[3])}
                if (new[2], new[3]) != (exp["payload"], exp["other"]):
                    if not must_fail:
                        vio("update-wrote-unexpected-values", "%s row %s expected %s got %s" % (S.name, r, exp, new))
                ctx.count("successful_updates")
                S.txn_writes.append(("upd", r, dict(cols)))
            S.pending_mod.clear()
            S.pending_kind.clear()
            S.pending_del.clear()
            S.has_write_lock = True
            if then_commit:
                commit(S)
        else:
            if outcome == "locked":
                ctx.count("locked_aborts")
                if not lock_conflict:
                    raise Locked("database is locked without a known foreign writer: %r" % (trace[-5:],))
            elif outcome == "stale":
                ctx.count("stale_raised")
                if not must_fail:
                    ctx.count("unpredicted_stale")
                    ctx.seen("unpredicted_stale_cases", str(desc)[:300])
            S.s.rollback()
            S.discard()
            after = w.committed()
            if after != before_committed:
                vio("failed-flush-changed-database", "%s flush failed (%s) but committed rows changed %s -> %s" % (
                    S.name, outcome, before_committed, after))
        return outcome

    def commit(S):
        try:
            S.s.commit()
        except sa_exc.OperationalError as e:
            if "database is locked" not in str(e):
                raise
            raise Locked("commit locked: %r" % (trace[-5:],))
        for wr in S.txn_writes:
            if wr[0] == "del":
                model.pop(wr[1], None)
            else:
                m = model.get(wr[1])
                if m is not None:
                    m.update(wr[2])
                    m["updates"] += 1
        S.txn_writes = []
        S.has_write_lock = False
        trace.append((S.name, "commit"))

    try:
        for who in order:
            S = sessions[who]
            op = seqs[who][pos[who]]
            pos[who] += 1
            k = op[0]
            if k == "load":
                r = op[1]
                o = S.s.get(w.cls, r)
                if o is None:
                    gone_obj = S.objs.pop(r, None)
                    if gone_obj is not None and sa.inspect(gone_obj).session is not S.s:
                        S.pending_mod.pop(r, None)
                        S.pending_del.discard(r)
                else:
                    S.objs[r] = o
                trace.append((S.name, "load", r, S.loaded_ver(r)))
            elif k == "refresh":
                o = S.objs.get(op[1])
                if o is not None and sa.inspect(o).persistent and op[1] not in S.pending_del:
                    try:
                        S.s.refresh(o)
                        # refresh discards pending attribute changes on that object
                        S.pending_mod.pop(op[1], None)
                        S.pending_kind.pop(op[1], None)
                    except sa_exc.InvalidRequestError:
                        S.s.expunge(o)
                        S.objs.pop(op[1], None)
                        S.pending_mod.pop(op[1], None)
                        S.pending_kind.pop(op[1], None)
                trace.append((S.name, "refresh", op[1], S.loaded_ver(op[1])))
            elif k == "mod":
                r, col = op[1], op[2]
                o = S.obj(r)
                if o is not None and r not in S.pending_del and sa.inspect(o).persistent:
                    val = "%s-%d" % (S.name, next(w.uniq))
                    setattr(o, col, val)
                    S.pending_mod.setdefault(r, {})[col] = val
                    S.pending_kind.setdefault(r, {})[col] = "set"
                    trace.append((S.name, "mod", r, col, val, S.loaded_ver(r)))
            elif k in ("setnone", "delattr"):
                # NULL an attribute by assignment or by ``del obj.attr``; only a net change
                # counts, so the current value is read first (this may refresh an expired
                # object, which legitimately renews its loaded version)
                r, col = op[1], op[2]
                o = S.obj(r)
                if o is not None and r not in S.pending_del and sa.inspect(o).persistent:
                    try:
                        cur = getattr(o, col)
                    except orm_exc.ObjectDeletedError:
                        cur = None
                    if cur is not None:
                        # net change <=> the COMMITTED value (what the row holds) is not NULL:
                        # NULLing a value that was only assigned in this same flush on top of a
                        # committed NULL leaves nothing to be flushed
                        committed = sa.inspect(o).committed_state.get(col, cur)
                        if isinstance(committed, enum.Enum):
                            # assigned while expired: the committed value is unknown (NO_VALUE),
                            # so whether NULLing is a net change cannot be told -- op skipped
                            ctx.count("nulling_skipped_unknown_committed_value")
                            continue
                        if k == "delattr":
                            delattr(o, col)
                        else:
                            setattr(o, col, None)
                        if committed is not None:
                            S.pending_mod.setdefault(r, {})[col] = None
                            S.pending_kind.setdefault(r, {})[col] = "del" if k == "delattr" else "none"
                        else:
                            S.pending_mod.get(r, {}).pop(col, None)
                            S.pending_kind.get(r, {}).pop(col, None)
                            if not S.pending_mod.get(r):
                                S.pending_mod.pop(r, None)
                                S.pending_kind.pop(r, None)
                            ctx.count("nulling_without_net_change")
                        ctx.count("attribute_nulled_" + ("by_del" if k == "delattr" else "by_none"))
                        trace.append((S.name, k, r, col, S.loaded_ver(r)))
            elif k == "del":
                r = op[1]
                o = S.obj(r)
                if o is not None and r not in S.pending_del and sa.inspect(o).persistent:
                    S.s.delete(o)
                    S.pending_del.add(r)
                    trace.append((S.name, "del", r, S.loaded_ver(r)))
            elif k == "flush":
                do_flush(S, False)
            elif k == "commit":
                do_flush(S, True)
            elif k == "rollback":
                S.s.rollback()
                S.discard()
                trace.append((S.name, "rollback"))
            else:
                raise ValueError(op)
    finally:
        for S in sessions:
            S.s.rollback()
            S.s.close()
    final = w.committed()
    ctx.count("final_states_compared")
    exp_ids = sorted(model)
    if violated:
        pass        # already reported at the flush that went wrong; the serial model is void from there on
    elif sorted(final) != exp_ids:
        vio("final-rows-differ-from-serial-model", "rows present %s, model %s" % (sorted(final), exp_ids), {"final": final, "model": model})
    else:
        for r in exp_ids:
            row, m = final[r], model[r]
            if (row[2], row[3]) != (m["payload"], m["other"]):
                vio("final-rows-differ-from-serial-model", "row %s is %s, model %s (lost or phantom write)" % (r, row, m),
                    {"final": final, "model": model})
            elif style != "uuid" and row[1] != 1 + m["updates"]:
                vio("final-version-differs-from-committed-update-count", "row %s version %s after %s committed updates" % (r, row[1], m["updates"]),
                    {"final": final, "model": model})
    if len(w.spec["tables"]) > 1:
        tids = w.table_ids()
        if any(ids != sorted(final) for ids in tids.values()):
            vio("multi-table-row-partially-present", "ids per table %s, joined rows %s" % (tids, sorted(final)))
    if w.spy.open:
        vio("connection-left-open", "open connections after closing all sessions: %s" % list(w.spy.open))
    ctx.case(desc, nontrivial=conflict)
    if conflict:
        ctx.count("conflict_cases")
    if sample:
        ctx.sample({"case": desc, "trace": trace, "final": final})


def run(ctx):
    rng = ctx.rng
    styles = STYLES
    worlds = {}
    try:
        for st in styles:
            worlds[st] = World(ctx, st)
        cat = QUICK_SEQS if ctx.quick else list(range(len(SEQS)))
        idx = 0
        for ai in cat:
            for bi in cat:
                seqs = [SEQS[ai], SEQS[bi]]
                for order in interleavings([len(SEQS[ai]), len(SEQS[bi])]):
                    idx += 1
                    if ctx.quick:
                        # quick: every (pair, interleaving) once, the mapping style and the
                        # expire_on_commit flag rotate with the index and the seed
                        if not ctx.mine(idx):
                            continue
                        if not ctx.budget_ok():
                            break
                        n = idx // ctx.nshards + ctx.seed
                        combos = [(styles[n % len(styles)], bool((n // len(styles)) % 2)),
                                  (styles[(n + 3) % len(styles)], not bool((n // len(styles)) % 2))]
                    else:
                        combos = [(st, e) for st in styles for e in (True, False)]
                    for ci, (st, e) in enumerate(combos):
                        if ctx.thorough:
                            if not ctx.mine(idx * len(combos) + ci):
                                continue
                            if not ctx.budget_ok():
                                break
                        ctx.count("interleavings")
                        ctx.seen("styles_run", st)
                        run_case(ctx, worlds[st], st, e, seqs, order, sample=(idx in (41, 4001) and ci == 0))
        ctx.count("enumeration_done")
        # random: three sessions, random sequences over the op alphabet
        nrand = ctx.pick({"quick": 100, "thorough": 4000})
        for k in range(nrand):
            if not ctx.budget_ok():
                break
            seqs = []
            for _ in range(3):
                n = rng.randint(2, 4)
                sq = []
                for _ in range(n):
                    q = rng.random()
                    r = rng.choice(ROWS)
                    if q < 0.2:
                        sq.append(("load", r))
                    elif q < 0.45:
                        sq.append(("mod", r, rng.choice(["payload", "other"])))
                    elif q < 0.55:
                        sq.append((rng.choice(["setnone", "delattr"]), r, rng.choice(["payload", "other"])))
                    elif q < 0.65:
                        sq.append(("del", r))
                    elif q < 0.75:
                        sq.append(("flush",))
                    elif q < 0.9:
                        sq.append(("commit",))
                    elif q < 0.95:
                        sq.append(("refresh", r))
                    else:
                        sq.append(("rollback",))
                sq.append(("commit",))
                seqs.append(sq)
            order = [i for i, sq in enumerate(seqs) for _ in sq]
            rng.shuffle(order)
            st = rng.choice(styles)
            ctx.count("interleavings")
            ctx.count("random_three_session_cases")
            run_case(ctx, worlds[st], st, rng.random() < 0.5, seqs, tuple(order), sample=(k == 0))
    finally:
        for w in worlds.values():
            w.close()
