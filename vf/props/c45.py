"""C45 -- Session.merge copies state onto the session's single instance.

Workload: a zoo (User -o2m-> Address, User -m2m-> Keyword, User -1:1-> Profile, composite
``pos``, deferred ``bio``; Note -m2o-> User *without* merge cascade) on SQLite behind the
DBAPI spy.  Source graphs are generated: detached graphs loaded with random loader
options (so attributes / relationships are only partially loaded) and then edited while
detached, or transient graphs built from constructors with existing / new / missing
primary keys.  They are merged into a session that is empty, or already holds the
identity (clean or with local pending changes), with ``load=True`` or - for clean
detached graphs - ``load=False``.

Oracle (all reads use ``__dict__`` so that judging never loads anything):
* the result is an instance attached to the target session, is the identity-map entry for
  the source's identity (the very instance the session already held, if any), a source
  node is mapped to exactly one merged node and two source copies of one identity map to
  the same merged node;
* every column attribute loaded on a source node is loaded and equal on the merged node,
  recursively along relationships whose cascade contains ``merge`` (lists pairwise, in
  order); attributes NOT loaded on the source keep the target's value (DB value, or the
  local pending value of a held instance); relationships without merge cascade do not
  propagate edits;
* a source node that has an identity key (identity token included: sources are also loaded
  under the ``identity_token`` execution option) is merged onto the instance of exactly that key;
* the composite attribute of a merged node, read by attribute access, agrees with its loaded
  column attributes (sources with a composite object, with directly written columns, built
  from column values, or detached after a flush that dropped the cached composite);
* target pre-states {identity absent, present clean, present with unflushed changes, present
  expired / partially expired, unrelated pending + dirty objects} x load {True, False}: at
  every stage ``session.dirty`` lists exactly the instances whose ``state.modified`` is set,
  after a flush dirty/new/deleted are empty, and a final ``commit()`` succeeds (fixture
  restored afterwards);
* the source graph is left untouched and unattached;
* after flushing, merging the same source again returns the same instances, flags no
  modification (``Session.is_modified``), and the following flush emits no
  INSERT/UPDATE/DELETE (spy), and leaves the loaded state unchanged;
* ``load=False`` emits no DBAPI call at all (spy execute/executemany count), leaves
  ``session.new/dirty(modified)/deleted`` empty, the merged objects unmodified, and a
  following flush emits nothing.

Guards: a transient source node without primary key legitimately produces a fresh pending
instance at every merge, so the idempotence part is only judged for graphs whose nodes all
carry primary keys (counted otherwise); a back-reference to an already visited source node
is only judged when it is present in the merged ``__dict__`` (merge skips the reverse
property by design and the attribute may stay lazy); sources are kept self-consistent
(a detached re-parenting also writes the FK attribute), since a source whose FK column
contradicts its relationship makes the second merge legitimately re-apply the stale FK.
"""
from __future__ import annotations

META = {
    "id": "C45",
    "level": "exploration",
    "technique": "generated detached/transient graphs merged into live sessions; __dict__-level graph comparison, idempotence by double merge, DBAPI spy statement counts for load=False",
    "level_text": "Seeded random source graphs (partial loads through 7 loader-option sets, 14 detached edit operations, transient graphs with existing/new/missing PKs, three root classes) merged into empty / holding / locally-modified sessions; each merge is judged for identity, copied state, untouched source, idempotence and (load=False) zero SQL.",
    "level_note": "SQLite only. Graph shapes are limited to the zoo (o2m, m2o, m2m, one-to-one, composite, deferred); inheritance, association proxies and version counters under merge are not generated. Idempotence is judged only for graphs whose nodes all have primary keys.",
    "design_ref": "DESIGN.md section 4, C45",
    "rule": "case = (root class, source kind, ids, loader options, edits, target session kind, load flag); non-trivial = the source graph has >= 2 nodes or the merge changed at least one attribute of a persistent instance; distinct by full descriptor",
    "shards": {"quick": 8, "thorough": 16},
    "modes": ["cext"],
    "soft_s": {"quick": 45, "thorough": 700},
    "exhaustive": {"quick": False, "thorough": False},
    "require": ["merges", "attrs_copied_checked", "rel_nodes_checked", "second_merges", "load_false_merges",
                "load_false_sql_free", "held_instance_cases", "partial_load_sources", "pending_results",
                "dml_free_second_flushes", "composite_values_checked", "token_sources", "flushed_sources",
                "bookkeeping_checks", "commits_after_merge", "dirty_held_targets_load_False",
                "dirty_held_targets_load_True", "targets_with_unrelated_pending_and_dirty"],
    "assumptions": ["reading __dict__ of mapped instances shows exactly the loaded attributes"],
}

OPTSETS = ("plain", "addresses", "keywords", "profile", "bio", "load_only_name", "all")
USER_EDITS = ("name", "age", "pos", "pxpy", "addr_append_new", "addr_append_pk", "addr_remove_last", "addr_email",
              "kw_remove_first", "kw_append_detached", "kw_append_transient", "profile_motto",
              "profile_none", "profile_new", "bio")


class Rig:
    def __init__(self, ctx):
        import sqlalchemy as sa
        from sqlalchemy import orm
        from sqlalchemy.pool import StaticPool

        from vf.gen import ormrig_gm as rig
        from vf.mon import dbapi_spy

        self.ctx, self.sa, self.orm, self.rig = ctx, sa, orm, rig
        self.spy = dbapi_spy.Spy()
        self.engine = self.spy.engine(":memory:", poolclass=StaticPool)
        rig.zoo_populate(self.engine)
        self.n = 0

    def uniq(self, p):
        self.n += 1
        return "%s%d" % (p, self.n)

    def options(self, name):
        orm, R = self.orm, self.rig
        U = R.User
        return {
            "plain": [],
            "addresses": [orm.selectinload(U.addresses)],
            "keywords": [orm.selectinload(U.keywords)],
            "profile": [orm.joinedload(U.profile)],
            "bio": [orm.undefer(U.bio)],
            "load_only_name": [orm.load_only(U.name)],
            "all": [orm.selectinload(U.addresses), orm.selectinload(U.keywords), orm.joinedload(U.profile),
                    orm.undefer(U.bio)],
        }[name]

    def restore(self):
        """bring the fixture back after a case that committed"""
        md = self.rig.BaseM.metadata
        rows = self.rig.zoo_rows()
        with self.engine.begin() as c:
            for t in reversed(md.sorted_tables):
                c.execute(t.delete())
            for t in md.sorted_tables:
                c.execute(t.insert(), rows[t.name])

    def raw(self, sql):
        with self.engine.connect() as c:
            return c.exec_driver_sql(sql).fetchall()

    def dml_since(self, mark):
        return [e.sql for e in self.spy.since(mark, kinds=("execute", "executemany"))
                if e.sql.lstrip().split(None, 1)[0].upper() in ("INSERT", "UPDATE", "DELETE")]

    def sql_since(self, mark):
        return [e.sql for e in self.spy.since(mark, kinds=("execute", "executemany"))]


def col_keys(sa, obj):
    return [p.key for p in sa.inspect(obj).mapper.column_attrs]


def graph_nodes(sa, root):
    """all mapped objects reachable through loaded relationship attributes (dict only)"""
    seen, order, stack = set(), [], [root]
    while stack:
        o = stack.pop()
        if o is None or id(o) in seen:
            continue
        seen.add(id(o))
        order.append(o)
        for rel in sa.inspect(o).mapper.relationships:
            v = o.__dict__.get(rel.key)
            if v is None:
                continue
            stack.extend(list(v) if rel.uselist else [v])
    return order


def snapshot(sa, nodes):
    """loaded state of a list of nodes: column values + relationship targets by position"""
    index = {id(o): i for i, o in enumerate(nodes)}
    out = []
    for o in nodes:
        d = {}
        for k in col_keys(sa, o):
            if k in o.__dict__:
                d[k] = o.__dict__[k]
        for rel in sa.inspect(o).mapper.relationships:
            if rel.key in o.__dict__:
                v = o.__dict__[rel.key]
                if rel.uselist:
                    d[rel.key] = [index.get(id(x), "ext:%s" % type(x).__name__) for x in v]
                else:
                    d[rel.key] = None if v is None else index.get(id(v), "ext:%s" % type(v).__name__)
        out.append((type(o).__name__, d))
    return out


def gen_spec(rng):
    root = rng.choice(["user"] * 6 + ["address", "address", "note"])
    src = rng.choice(["detached", "detached", "transient"])
    spec = {"root": root, "src": src}
    if root == "user":
        if src == "detached":
            spec["rid"] = rng.choice([1, 2, 3])
            spec["opts"] = rng.choice(OPTSETS)
            spec["touch"] = rng.choice([None, None, "addresses", "keywords", "profile"])
            ne = rng.choice([0, 0, 1, 2, 3])
            spec["edits"] = [rng.choice(USER_EDITS) for _ in range(ne)]
            # the source went through a flush (expire_on_commit=False) before being detached
            spec["flushed"] = rng.choice([None, None, None, "pos", "pxpy", "name"])
        else:
            spec["rid"] = rng.choice([1, 2, 3, 101, None])
            spec["fields"] = sorted(rng.sample(["name", "age", "pos", "bio", "pxpy"], rng.randint(0, 4)))
            if "pos" in spec["fields"] and "pxpy" in spec["fields"]:
                spec["fields"].remove("pos")
            spec["addresses"] = rng.choice([None, [], [11], [11, 12], [None], [13, None], [201]])
            spec["keywords"] = rng.choice([None, [], [1], [2, 3], [4, 1], [301]])
            spec["profile"] = rng.choice([None, None, "none", 21, "new", 401])
            spec["edits"] = []
    elif root == "address":
        if src == "detached":
            spec["rid"] = rng.choice([11, 12, 13])
            spec["with_user"] = rng.random() < 0.6
            spec["edits"] = rng.sample(["email", "user_name", "reparent"], rng.randint(0, 2))
        else:
            spec["rid"] = rng.choice([11, 13, 202, None])
            spec["user"] = rng.choice([None, 1, 2, 102, "nopk"])
            spec["edits"] = []
    else:
        spec["rid"] = 31
        spec["src"] = "detached"
        spec["edits"] = rng.sample(["text", "user_name"], rng.randint(0, 2))
    # identity token of the source's identity key (None = the default)
    spec["token"] = rng.choice([None, None, "tokA"]) if spec["src"] == "detached" else None
    # pre-state of the target session with respect to the merged identity
    spec["target"] = rng.choice(["empty", "empty", "held", "held_modified", "held_modified", "held_expired",
                                 "held_part_expired", "other_pending"])
    clean_detached = spec["src"] == "detached" and not spec["edits"]
    spec["load"] = not (clean_detached and rng.random() < 0.5)
    # end the case with a real commit() (the fixture is restored afterwards)
    spec["commit"] = (not spec["load"]) or rng.random() < 0.35
    return spec


def build_source(R, spec):
    """-> root source object (detached or transient)"""
    sa, orm, M = R.sa, R.orm, R.rig
    root = spec["root"]
    if spec["src"] == "detached":
        ss = orm.Session(R.engine, expire_on_commit=False, autoflush=False)
        eo = {"identity_token": spec["token"]} if spec.get("token") else {}
        if root == "user":
            u = ss.scalars(sa.select(M.User).where(M.User.id == spec["rid"]).options(*R.options(spec["opts"])),
                           execution_options=eo).one()
            if spec.get("touch"):
                getattr(u, spec["touch"])
            kw_copy = ss.get(M.Keyword, 4)
            fl = spec.get("flushed")
            if fl:
                # edit + flush while attached: the object is clean afterwards, keeps its column
                # values loaded and (after_update) has no composite cached; the source session's
                # transaction is rolled back after detaching, the database stays as it was
                if fl == "pos" and "px" in u.__dict__:
                    u.pos = M.Point(20 + R.n % 5, R.n)
                elif fl == "pxpy" and "px" in u.__dict__:
                    u.px, u.py = 30 + R.n % 5, R.n
                else:
                    u.name = R.uniq("fl")
                ss.flush()
                R.ctx.count("flushed_sources")
            ss.expunge_all()
            ss.rollback()
            ss.close()
            d = u.__dict__
            for e in spec["edits"]:
                if e == "name" and "name" in d:
                    u.name = R.uniq("nm")
                elif e == "age" and "age" in d:
                    u.age = (u.age or 0) + 1
                elif e == "bio" and "bio" in d:
                    u.bio = R.uniq("bio")
                elif e == "pos" and "px" in d and "py" in d:
                    u.pos = M.Point(7, R.n)
                elif e == "pxpy" and "px" in d and "py" in d:
                    u.px, u.py = 9, R.n       # column attributes written directly
                elif e == "addr_append_new" and "addresses" in d:
                    u.addresses.append(M.Address(email=R.uniq("new@")))
                elif e == "addr_append_pk" and "addresses" in d:
                    u.addresses.append(M.Address(id=200 + R.n % 50, email=R.uniq("pk@")))
                elif e == "addr_remove_last" and d.get("addresses"):
                    u.addresses.pop()
                elif e == "addr_email" and d.get("addresses"):
                    u.addresses[0].email = R.uniq("ed@")
                elif e == "kw_remove_first" and d.get("keywords"):
                    del u.keywords[0]
                elif e == "kw_append_detached" and "keywords" in d and all(k.id != 4 for k in u.keywords):
                    u.keywords.append(kw_copy)
                elif e == "kw_append_transient" and "keywords" in d and all(k.id != 3 for k in u.keywords):
                    u.keywords.append(M.Keyword(id=3, word="k3"))
                elif e == "profile_motto" and d.get("profile") is not None:
                    u.profile.motto = R.uniq("mo")
                elif e == "profile_none" and "profile" in d:
                    u.profile = None
                elif e == "profile_new" and "profile" in d:
                    u.profile = M.Profile(motto=R.uniq("np"))
            return u
        if root == "address":
            q = sa.select(M.Address).where(M.Address.id == spec["rid"])
            if spec["with_user"]:
                q = q.options(orm.joinedload(M.Address.user))
            a = ss.scalars(q, execution_options=eo).one()
            other = ss.get(M.User, 3)
            ss.expunge_all()
            ss.close()
            for e in spec["edits"]:
                if e == "email":
                    a.email = R.uniq("ed@")
                elif e == "user_name" and a.__dict__.get("user") is not None:
                    a.user.name = R.uniq("un")
                elif e == "reparent" and "user" in a.__dict__:
                    # keep the source self-consistent: a detached object gets no FK sync,
                    # and a source whose FK column contradicts its relationship is outside
                    # the property (guard)
                    a.user = other
                    a.user_id = other.id
            return a
        n = ss.scalars(sa.select(M.Note).where(M.Note.id == spec["rid"]).options(orm.joinedload(M.Note.user)),
                       execution_options=eo).one()
        ss.expunge_all()
        ss.close()
        for e in spec["edits"]:
            if e == "text":
                n.text = R.uniq("tx")
            elif e == "user_name":
                n.user.name = R.uniq("NOTPROPAGATED")
        return n
    # transient
    if root == "user":
        kw = {}
        if spec["rid"] is not None:
            kw["id"] = spec["rid"]
        for f in spec["fields"]:
            if f == "pos":
                kw["pos"] = M.Point(3, R.n % 9)
            elif f == "pxpy":
                kw["px"], kw["py"] = 5, R.n % 9     # built from column values, no composite object
            elif f == "age":
                kw["age"] = 40 + R.n % 9
            else:
                kw[f] = R.uniq(f)
        if spec["addresses"] is not None:
            kw["addresses"] = [M.Address(email=R.uniq("t@")) if i is None else M.Address(id=i, email=R.uniq("t@"))
                               for i in spec["addresses"]]
        if spec["keywords"] is not None:
            kw["keywords"] = [M.Keyword(id=i, word="k%d" % i) for i in spec["keywords"]]
        p = spec["profile"]
        if p == "none":
            kw["profile"] = None
        elif p == "new":
            kw["profile"] = M.Profile(motto=R.uniq("tp"))
        elif p is not None:
            kw["profile"] = M.Profile(id=p, motto=R.uniq("tp"))
        return M.User(**kw)
    kw = {"email": R.uniq("ta@")}
    if spec["rid"] is not None:
        kw["id"] = spec["rid"]
    u = spec["user"]
    if u == "nopk":
        kw["user"] = M.User(name=R.uniq("tu"))
    elif u is not None:
        kw["user"] = M.User(id=u, name=R.uniq("tu"))
    return M.Address(**kw)


def run_case(R, spec, sample=False):
    ctx, sa, orm, M = R.ctx, R.sa, R.orm, R.rig
    src = build_source(R, spec)
    src_nodes = graph_nodes(sa, src)
    src_snap = snapshot(sa, src_nodes)
    cls = type(src)
    all_pk = all(sa.inspect(o).key is not None or o.__dict__.get("id") is not None for o in src_nodes)
    if any(len(o.__dict__) - 1 < len(col_keys(sa, o)) for o in src_nodes if sa.inspect(o).key is not None):
        ctx.count("partial_load_sources")

    violated = []

    def vio(mech, msg, extra=None):
        violated.append(mech)
        ctx.violation(mech, "%s :: %s" % (msg, spec), {"spec": spec, "detail": extra, "source": src_snap})

    sess = orm.Session(R.engine)
    try:
        held = None
        held_before = None
        rid = spec["rid"]
        if spec["target"] == "other_pending":
            # unrelated pending and dirty objects live in the session while the merge happens
            sess.add(M.Keyword(word=R.uniq("pend")))
            other = sess.get(M.Keyword, 2)
            other.word = R.uniq("dirty")
            ctx.count("targets_with_unrelated_pending_and_dirty")
        if spec["target"].startswith("held") and rid is not None:
            held = sess.get(cls, rid, identity_token=spec.get("token"))
            if held is not None and cls is M.User and "px" in held.__dict__:
                held.pos        # the composite is cached on the instance the session holds
            if held is not None:
                ctx.count("held_instance_cases")
                if spec["target"] == "held_expired":
                    sess.expire(held)
                elif spec["target"] == "held_part_expired":
                    sess.expire(held, ["name"] if cls is M.User else ["email"] if cls is M.Address else ["text"])
                if spec["target"] == "held_modified":
                    # unflushed local change on the instance the session holds (load=True keeps it
                    # for attributes the source has not loaded; load=False discards it: the result
                    # of merge(load=False) is clean by contract)
                    ctx.count("dirty_held_targets_load_%s" % spec["load"])
                    if cls is M.User:
                        held.age = 999
                        held.name = "local"
                    elif cls is M.Address:
                        held.email = "local@"
                    else:
                        held.text = "local"
                held_before = {k: v for k, v in held.__dict__.items() if k in col_keys(sa, held)}
        dbrow = {}
        if rid is not None:
            t = cls.__table__
            with R.engine.connect() as c:
                r = c.execute(sa.select(t).where(t.c.id == rid)).mappings().first()
                dbrow = dict(r) if r else {}
        pre_new = len(sess.new)
        held_was_expired = held is not None and bool(sa.inspect(held).expired)

        def check_books(stage, after_flush=False):
            """session.dirty / state.modified / new / deleted must tell one story"""
            ctx.count("bookkeeping_checks")
            for o in list(sess.dirty):
                if not sa.inspect(o).modified:
                    vio("session-dirty-lists-unmodified-instance",
                        "%s: %s is in session.dirty but state.modified is False (is_modified=%s)" % (
                            stage, type(o).__name__, sess.is_modified(o)))
                    return False
            for st_ in list(sess.identity_map.all_states()):
                o = st_.obj()
                if o is not None and st_.modified and o not in sess.dirty and o not in sess.deleted:
                    vio("modified-instance-missing-from-session-dirty", "%s: %s" % (stage, type(o).__name__))
                    return False
            if after_flush and (list(sess.dirty) or list(sess.new) or list(sess.deleted)):
                vio("session-not-clean-after-flush", "%s: dirty=%d new=%d deleted=%d" % (
                    stage, len(sess.dirty), len(sess.new), len(sess.deleted)))
                return False
            return True

        # ---------------- the merge -----------------------------------------
        mark = R.spy.mark()
        ctx.count("merges")
        load = spec["load"]
        m = sess.merge(src, load=load)
        if not load:
            ctx.count("load_false_merges")
            sql = R.sql_since(mark)
            if sql:
                vio("load-false-emitted-sql", "merge(load=False) emitted %d statements: %s" % (len(sql), sql[:2]))
            else:
                ctx.count("load_false_sql_free")

        # ---------------- identity -----------------------------------------
        st = sa.inspect(m)
        if m is src:
            vio("merge-returned-source", "merge returned the source object itself")
        if st.session is not sess:
            vio("result-not-in-session", "merged instance is not attached to the target session")
        if held is not None and m is not held:
            vio("result-is-not-the-held-instance", "session already held %r but merge returned another instance" % (held,))
        src_key = sa.inspect(src).key
        if src_key is not None:
            if src_key[2] is not None:
                ctx.count("token_sources")
            if st.key != src_key:
                vio("merged-instance-identity-differs-from-source", "source identity %s, result identity %s" % (src_key, st.key))
        if st.key is not None and sess.identity_map.get(st.key) is not m:
            vio("result-is-not-identity-map-entry", "identity map entry for %s is not the returned instance" % (st.key,))
        if rid is not None and dbrow and not st.persistent and not (st.pending and False):
            vio("existing-row-merged-as-non-persistent", "row %s exists but result is %s" % (
                rid, "pending" if st.pending else "transient" if st.transient else "other"))
        if st.pending:
            ctx.count("pending_results")
            if not load:
                vio("load-false-produced-pending", "merge(load=False) produced a pending instance")

        # ---------------- copied state -------------------------------------
        mapping = {}
        by_key = {}
        changed = [False]

        def walk(s_node, m_node, path):
            if id(s_node) in mapping:
                if mapping[id(s_node)] is not m_node:
                    vio("source-node-merged-to-two-instances", "source %s at %s maps to two merged instances" % (type(s_node).__name__, path))
                return
            mapping[id(s_node)] = m_node
            if type(m_node) is not type(s_node):
                vio("merged-instance-wrong-class", "%s: %s vs %s" % (path, type(s_node).__name__, type(m_node).__name__))
                return
            if m_node is s_node:
                vio("merge-returned-source", "%s: merged graph contains a source object" % path)
                return
            if sa.inspect(m_node).session is not sess:
                vio("merged-node-not-in-session", "%s: merged node not attached to the session" % path)
            ctx.count("rel_nodes_checked")
            sid = s_node.__dict__.get("id")
            if sid is not None:
                prev = by_key.setdefault((type(s_node), sid), m_node)
                if prev is not m_node:
                    vio("two-instances-for-one-identity", "%s: identity (%s, %s) merged into two instances" % (path, type(s_node).__name__, sid))
            sk = sa.inspect(s_node).key
            if sk is not None and sa.inspect(m_node).key is not None and sa.inspect(m_node).key != sk:
                vio("merged-instance-identity-differs-from-source", "%s: source identity %s, result identity %s" % (
                    path, sk, sa.inspect(m_node).key))
            sd, md = s_node.__dict__, m_node.__dict__
            for k in col_keys(sa, s_node):
                if k in sd:
                    ctx.count("attrs_copied_checked")
                    if k not in md:
                        vio("loaded-source-attribute-not-set-on-result", "%s.%s loaded on source, absent on result" % (path, k))
                    elif md[k] != sd[k]:
                        vio("loaded-source-attribute-differs-on-result", "%s.%s source=%r result=%r" % (path, k, sd[k], md[k]))
            if isinstance(m_node, M.User) and "px" in md and "py" in md:
                # the composite VALUE as the application sees it (attribute access; its
                # columns are loaded, so this emits no SQL) must agree with the columns
                ctx.count("composite_values_checked")
                want = M.Point(md["px"], md["py"])
                got = m_node.pos
                if got != want and not (got is None and want == M.Point(None, None)):
                    vio("composite-value-disagrees-with-columns-after-merge" + (
                        "-onto-expired-instance" if m_node is held and held_was_expired else ""),
                        "%s.pos is %r while px, py = %r, %r" % (path, got, md["px"], md["py"]))
            for rel in sa.inspect(s_node).mapper.relationships:
                if rel.key not in sd:
                    continue
                sv = sd[rel.key]
                if "merge" not in rel.cascade:
                    continue
                targets = list(sv) if rel.uselist else ([sv] if sv is not None else [])
                backref_only = bool(targets) and all(id(t) in mapping for t in targets)
                if rel.key not in md:
                    if not backref_only:
                        vio("loaded-source-relationship-not-set-on-result", "%s.%s loaded on source, absent on result" % (path, rel.key))
                    continue
                mv = md[rel.key]
                if rel.uselist:
                    mv = list(mv)
                    if len(mv) != len(sv):
                        vio("merged-collection-length-differs", "%s.%s source has %d, result %d" % (path, rel.key, len(sv), len(mv)))
                        continue
                    for i, (a, b) in enumerate(zip(sv, mv)):
                        walk(a, b, "%s.%s[%d]" % (path, rel.key, i))
                else:
                    if (sv is None) != (mv is None):
                        vio("merged-scalar-relationship-differs", "%s.%s source=%r result=%r" % (path, rel.key, sv, mv))
                    elif sv is not None:
                        walk(sv, mv, "%s.%s" % (path, rel.key))

        if type(m) is type(src) and m is not src:
            walk(src, m, cls.__name__)

        # attributes not loaded on the source keep the target's value
        if st.persistent and load:
            for k in col_keys(sa, m):
                if k in src.__dict__ or k not in m.__dict__:
                    continue
                if held_before is not None and k in held_before:
                    if m.__dict__[k] != held_before[k]:
                        vio("unloaded-source-attribute-overwrote-target", "%s: held value %r became %r" % (k, held_before[k], m.__dict__[k]))
                elif k in dbrow and m.__dict__[k] != dbrow[k]:
                    vio("unloaded-source-attribute-overwrote-target", "%s: db value %r, result %r" % (k, dbrow[k], m.__dict__[k]))
        if held_before is not None:
            for k, v in held_before.items():
                if k in src.__dict__ and src.__dict__[k] != v:
                    changed[0] = True

        # relationships without merge cascade must not propagate edits
        if cls is M.Note and "user_name" in spec["edits"]:
            su = src.__dict__.get("user")
            if su is not None:
                tu = sess.identity_map.get(sa.inspect(su).key) if sa.inspect(su).key else None
                if tu is not None and tu.__dict__.get("name") == su.name:
                    vio("merge-cascaded-without-merge-cascade", "Note.user has cascade without merge, yet the edit reached the session's User")
                ctx.count("non_cascade_checked")

        # ---------------- source untouched ---------------------------------
        after_nodes = graph_nodes(sa, src)
        if len(after_nodes) != len(src_nodes) or any(a is not b for a, b in zip(after_nodes, src_nodes)) \
                or snapshot(sa, after_nodes) != src_snap:
            vio("merge-modified-source-graph", "source graph changed by merge", {"after": snapshot(sa, after_nodes)})
        for o in src_nodes:
            if sa.inspect(o).session is not None:
                vio("merge-attached-source-object", "source %s became attached to a session" % type(o).__name__)
                break

        # ---------------- load=False flags nothing -------------------------
        merged_nodes = [x for x in mapping.values()]
        if not load:
            flagged = [type(o).__name__ for o in merged_nodes if sa.inspect(o).modified or sess.is_modified(o)
                       or o in sess.dirty
                       or any(sa.inspect(o).attrs[k].history.has_changes() for k in col_keys(sa, o) if k in o.__dict__)]
            if flagged or len(sess.new) != pre_new or sess.deleted:
                vio("load-false-flagged-changes", "modified/dirty/history=%s new=%d deleted=%d" % (flagged, len(sess.new), len(sess.deleted)))
            check_books("after merge(load=False)")
            mark2 = R.spy.mark()
            unrelated = spec["target"] == "other_pending"
            sess.flush()
            if R.sql_since(mark2) and not unrelated:
                vio("load-false-flush-emitted-sql", "flush after merge(load=False) emitted %s" % R.sql_since(mark2)[:2])
            check_books("after flush following merge(load=False)", after_flush=True)
            mark2 = R.spy.mark()
            # a second load=False merge is idempotent as well
            m2 = sess.merge(src, load=False)
            if m2 is not m:
                vio("second-merge-returned-other-instance", "second merge(load=False) returned another instance")
            if R.sql_since(mark2):
                vio("load-false-emitted-sql", "second merge(load=False) emitted SQL")
        elif not violated:
            # ---------------- idempotence ----------------------------------
            if not all_pk:
                ctx.count("idempotence_skipped_pkless_node")
            else:
                sess.flush()
                nodes1 = list(merged_nodes)
                snap1 = snapshot(sa, nodes1)
                mark2 = R.spy.mark()
                ctx.count("second_merges")
                check_books("after flush following merge", after_flush=True)
                m2 = sess.merge(src)
                if m2 is not m:
                    vio("second-merge-returned-other-instance", "second merge returned another instance")
                check_books("after second merge")
                mapping2 = {}
                for s_node in src_nodes:
                    pass
                flagged = [type(o).__name__ for o in nodes1 if sess.is_modified(o)]
                if flagged or sess.new or sess.deleted:
                    vio("second-merge-flagged-changes", "second identical merge flagged modified=%s new=%d deleted=%d" % (
                        flagged, len(sess.new), len(sess.deleted)))
                sess.flush()
                dml = R.dml_since(mark2)
                if dml:
                    vio("second-merge-emitted-dml", "second identical merge led to DML: %s" % dml[:3])
                else:
                    ctx.count("dml_free_second_flushes")
                snap2 = snapshot(sa, nodes1)
                for (c1, d1), (c2, d2) in zip(snap1, snap2):
                    for k, v in d1.items():
                        if k in d2 and d2[k] != v:
                            vio("second-merge-changed-state", "%s.%s %r -> %r" % (c1, k, v, d2[k]))
                            break
        if not violated:
            check_books("end of case")
        # ---------------- commit works ---------------------------------------
        if spec.get("commit"):
            if not violated:
                ctx.count("commits_after_merge")
                try:
                    sess.commit()
                except Exception as e:
                    sess.rollback()
                    vio("commit-after-merge-raised-%s" % type(e).__name__, "%s: %s" % (type(e).__name__, str(e)[:200]))
                else:
                    if list(sess.dirty) or list(sess.new) or list(sess.deleted):
                        vio("session-not-clean-after-commit", "dirty=%d new=%d" % (len(sess.dirty), len(sess.new)))
            sess.rollback()
            R.restore()
        nontriv = len(src_nodes) >= 2 or changed[0]
        ctx.case(spec, nontrivial=nontriv)
        ctx.seen("target_x_load", "%s/%s/%s/%s" % (spec["root"], spec["src"], spec["target"], spec["load"]))
        if sample:
            ctx.sample({"spec": spec, "source": src_snap, "result_state": "persistent" if st.persistent else "pending" if st.pending else "other"})
    finally:
        sess.rollback()
        sess.close()


def run(ctx):
    R = Rig(ctx)
    rng = ctx.rng
    try:
        n = ctx.pick({"quick": 450, "thorough": 5000})
        for k in range(n):
            if not ctx.budget_ok():
                break
            spec = gen_spec(rng)
            run_case(R, spec, sample=(k < 1))
        before = R.rig.zoo_rows()
        # the fixture must be intact (every case rolled back)
        got = R.raw("SELECT id, name, age FROM gm_user ORDER BY id")
        if [tuple(r) for r in got] != [(r["id"], r["name"], r["age"]) for r in before["gm_user"]]:
            raise RuntimeError("fixture changed: a case leaked a commit %r" % (got,))
    finally:
        R.engine.dispose()
