"""C46 -- expired and refreshed attributes reflect the database.

Random bounded histories of one Session over A(id, x, y, z) rows of a SQLite *file*
database, interleaved with **external writes**: an independent ``sqlite3`` connection
(autocommit) updates columns with unique payloads ``e<n>``.  SQLite has no snapshots but
locks: the external writer runs only while no DBAPI connection of the engine holds an
open transaction (checked on the raw handles through the M-spy ledger; a write that
still meets ``database is locked`` is skipped and counted), so "the value currently in
the database for the session's transaction" is always well defined and is read without
any SQLAlchemy code: through the raw handle that owns the open transaction, else through
the independent connection (``Rig.truth``).

Oracle (observational, never predicts *which* attributes a load refreshes):

* a shadow per (object, attribute) is either EXPIRED - set by the documented expiring
  operations: ``expire(obj)``, ``expire(obj, names)``, ``expire_all()``,
  ``refresh(obj[, names])``, ``commit()`` with ``expire_on_commit``, ``rollback()`` of a transaction in progress,
  rows returned by a ``populate_existing`` query - or VALUE(v): the value last observed
  / the pending local value (unique payloads ``l<n>``);
* after every operation each tracked object's ``__dict__`` is scanned (no loads
  triggered): an attribute whose shadow is EXPIRED and that is now loaded must equal the
  database value *now* (no external write can have happened since the load - the harness
  is single threaded) and becomes VALUE; one whose shadow is VALUE(v) and that is loaded
  must still be v (stale-but-not-expired and pending values are kept, never silently
  replaced); one that became unloaded is simply EXPIRED from then on (over-expiry is not
  a violation of this property);
* an explicit read returns the shadow value, or the database value when EXPIRED;
* pending values that were not expired reach the database: after ``flush``/``commit``
  (and after an autoflushing ``populate_existing`` query) the row holds them.

``populate_existing`` is exercised as execution option, ``Query.populate_existing()`` and
``Session.get(populate_existing=True)``, also with rows that LACK normally loaded columns:
textual ``SELECT <subset>`` through ``from_statement`` and (third mapping variant) joined-table
inheritance, where every base-class SELECT returns subclass instances without the sub-table
columns.

Two more input classes: ``commit()`` of a session transaction that emitted no SQL while the
session holds unexpired objects (a detached object re-attached with ``add()``; objects kept
loaded by an ``expire_on_commit=False`` commit, flag switched back on) - it expires like any
other commit; and a *failed* refresh load (M-spy raises "database is locked" on the SELECT of
the first read of an expired attribute, or the read happens while detached) followed by a
retry, which must load the database value.  Every explicit read of an EXPIRED attribute is
compared with the database directly.

Guards: ``refresh`` expires first and autoflushes second (so pending changes on the
refreshed attributes are discarded, others flushed) - modelled as "EXPIRED, then scan";
``populate_existing`` with autoflush off overwrites pending values (documented) - their
expectations are dropped; rows are never deleted externally.
"""
from __future__ import annotations

import sqlite3
import warnings

META = {
    "id": "C46",
    "level": "exploration",
    "technique": "external-writer interleaving with unique payloads; per-attribute shadow (EXPIRED / VALUE) checked against raw-connection truth after every session op",
    "level_text": "Seeded random histories (15-40 ops) over expire / expire(names) / expire_all / refresh / refresh(names) / commit / rollback / populate_existing / plain queries / get / set / flush / reads, with external committed updates in between, for autoflush and expire_on_commit on/off; every attribute of every tracked object is judged after every op.",
    "level_note": "SQLite only: no snapshot isolation, so external writes are restricted to moments without an open DBAPI transaction (stated in the property plan); behaviour under REPEATABLE READ/SERIALIZABLE servers is out of reach. Column attributes plus one deferred-column variant; relationship attributes are not judged here.",
    "design_ref": "DESIGN.md section 4, C46",
    "rule": "case = one history; non-trivial = at least one EXPIRED attribute was (re)loaded after an external write changed that very column; distinct by op-name sequence + session flags",
    "shards": {"quick": 8, "thorough": 16},
    "modes": ["cext"],
    "soft_s": {"quick": 50, "thorough": 800},
    "exhaustive": {"quick": False, "thorough": False},
    "require": ["ext_writes", "reloads_after_ext_write", "expired_reload_checks", "value_kept_checks",
                "pending_kept_checks", "pending_reached_db_checks", "populate_existing_ops", "refresh_ops",
                "commit_expire_ops", "partial_expire_ops", "populate_existing_subset_rows", "idle_commits", "failed_loads_injected",
                "expired_read_value_checks"],
    "assumptions": ["sqlite3 raw handles report in_transaction truthfully"],
}

ATTRS = ("x", "y", "z")
EXP = ("exp",)


class Hist:
    def __init__(self, ctx, rig, s, flags):
        self.ctx, self.rig, self.s, self.flags = ctx, rig, s, flags
        self.A = rig.cls["A"]
        # table holding each judged column (joined-inheritance variant: y, z live in a_sub)
        self.table_of = {"x": "a", "y": "a_sub", "z": "a_sub"} if flags.get("inheritance") else dict.fromkeys(ATTRS, "a")
        self.objs = {}       # pk -> object (strong)
        self.shadow = {}     # (pk, attr) -> EXP | ("val", v)
        self.pend = {}       # (pk, attr) -> pending local value that must reach the DB
        self.extdirty = set()  # (pk, attr) written externally since the attribute was last (re)loaded
        self.trace = []
        self.n = 0
        self.good = 0
        self.violated = False

    def uniq(self, t):
        self.n += 1
        return f"{t}{self.n}"

    def wit(self, **kw):
        w = {"flags": self.flags, "ops": self.trace[-45:]}
        w.update(kw)
        return w

    def viol(self, mech, summary, **kw):
        self.violated = True
        self.ctx.violation(mech, summary, self.wit(**kw))

    def truth(self, pk, attr):
        rows = self.rig.truth(f"SELECT {attr} FROM {self.table_of[attr]} WHERE id=?", (pk,))
        return rows[0][0]

    def getattr(self, pk, a):
        """Read an attribute of a persistent object whose row exists: it must not raise."""
        try:
            return getattr(self.objs[pk], a)
        except Exception as e:
            self.viol("attribute-read-raises:" + type(e).__name__,
                      f"reading A({pk}).{a} (shadow {self.shadow[(pk, a)][0]}) raised {type(e).__name__}: {str(e)[:120]}",
                      pk=pk, attr=a)
            return None

    def check_expired_read(self, pk, a, v, what):
        """The value an explicit read of an EXPIRED attribute returns is the database value now."""
        t = self.truth(pk, a)
        self.ctx.count("expired_read_value_checks")
        if v != t:
            self.viol(f"{what}-of-expired-attribute-returns-other-than-database-value",
                      f"A({pk}).{a} was expired; {what} returned {v!r}, the database says {t!r}", pk=pk, attr=a,
                      memory=v, database=t)

    def expire_shadow(self, pks=None, attrs=ATTRS, drop_pending=True):
        for pk in (pks if pks is not None else list(self.objs)):
            for a in attrs:
                self.shadow[(pk, a)] = EXP
                if drop_pending:
                    self.pend.pop((pk, a), None)

    # ---- the scan ------------------------------------------------------------
    def scan(self):
        for pk, o in self.objs.items():
            d = o.__dict__
            for a in ATTRS:
                sh = self.shadow[(pk, a)]
                if a in d:
                    v = d[a]
                    if sh is EXP:
                        t = self.truth(pk, a)
                        self.ctx.count("expired_reload_checks")
                        if (pk, a) in self.extdirty:
                            self.ctx.count("reloads_after_ext_write")
                            self.good += 1
                        self.extdirty.discard((pk, a))
                        if v != t:
                            self.viol("expired-attribute-not-reloaded-from-database:" + self.last_op(),
                                      f"A({pk}).{a} was expired; after {self.trace[-1]} it holds {v!r} but the database says {t!r}",
                                      pk=pk, attr=a, memory=v, database=t)
                        self.shadow[(pk, a)] = ("val", v)
                    else:
                        self.ctx.count("value_kept_checks")
                        if (pk, a) in self.pend:
                            self.ctx.count("pending_kept_checks")
                        if v != sh[1]:
                            kind = "pending" if (pk, a) in self.pend else "loaded"
                            self.viol(f"{kind}-value-replaced-without-expiry",
                                      f"A({pk}).{a} held {kind} value {sh[1]!r}, was not expired, but after {self.trace[-1]} holds {v!r}",
                                      pk=pk, attr=a, before=sh[1], after=v)
                            self.shadow[(pk, a)] = ("val", v)
                else:
                    if sh is not EXP:
                        self.shadow[(pk, a)] = EXP   # over-expiry: tolerated

    def last_op(self):
        last = self.trace[-1]
        return last[0] if isinstance(last, (tuple, list)) else str(last)

    def pending_reached_db(self, where):
        for (pk, a), v in list(self.pend.items()):
            t = self.truth(pk, a)
            self.ctx.count("pending_reached_db_checks")
            if t != v:
                self.viol("pending-change-not-in-database-after-" + where,
                          f"A({pk}).{a} pending {v!r} but after {where} the database says {t!r}", pk=pk, attr=a)
        self.pend.clear()


def build_ops(h):
    from sqlalchemy import select, text

    s, rng, A, rig, ctx = h.s, h.ctx.rng, h.A, h.rig, h.ctx

    def some_obj():
        return rng.choice(sorted(h.objs)) if h.objs else None

    def ext_write():
        if rig.write_txn_open():
            ctx.count("ext_write_blocked_by_open_txn")
            return None
        pk = rng.choice([1, 2, 3])
        attrs = rng.sample(ATTRS, rng.randint(1, 3))
        try:
            for tab in sorted({h.table_of[a] for a in attrs}):
                cols = [a for a in attrs if h.table_of[a] == tab]
                sets = ", ".join(f"{a}=?" for a in cols)
                rig.obs.execute(f"UPDATE {tab} SET {sets} WHERE id=?", (*[h.uniq("e") for _ in cols], pk))
        except sqlite3.OperationalError:
            ctx.count("ext_write_skipped_locked")
            return None
        ctx.count("ext_writes")
        for a in attrs:
            h.extdirty.add((pk, a))
        return ("ext_write", len(attrs))

    def load():
        """bring a row into the session (first sight of an object: shadow from what was loaded)"""
        pk = rng.choice([1, 2, 3])
        if pk in h.objs:
            return None
        o = s.get(A, pk)
        h.objs[pk] = o
        for a in ATTRS:
            h.shadow[(pk, a)] = EXP     # whatever is in __dict__ now was loaded now: scan compares with truth
        return ("load",)

    def read():
        pk = some_obj()
        if pk is None:
            return None
        a = rng.choice(ATTRS)
        sh = h.shadow[(pk, a)]
        v = h.getattr(pk, a)
        if h.violated:
            return ("read", "raised")
        if sh is not EXP and v != sh[1]:
            h.viol("read-returns-other-than-kept-value", f"A({pk}).{a} should still be {sh[1]!r}, read {v!r}", pk=pk, attr=a)
        elif sh is EXP:
            h.check_expired_read(pk, a, v, "read")
        return ("read", sh is EXP)

    def idle_commit():
        """Input class: commit of a session transaction that never touched the database while
        the session holds unexpired persistent objects."""
        kind = rng.choice(["reattach", "toggle"])
        loaded = [pk for pk in h.objs if any(a in h.objs[pk].__dict__ for a in ATTRS)
                  and not any((pk, a) in h.pend for a in ATTRS)]
        if kind == "reattach":
            if not loaded:
                return None
            pk = rng.choice(loaded)
            o = h.objs[pk]
            s.expunge(o)                 # keeps its loaded values
            keep = {a: h.shadow[(pk, a)] for a in ATTRS}
            commit()                     # ends the transaction that loaded it; o is not part of it
            for a in ATTRS:
                h.shadow[(pk, a)] = keep[a]
            h.trace.append(("…expunge+commit",))
            s.add(o)                     # new transaction, no SQL
        else:
            if not loaded:
                return None
            was = s.expire_on_commit
            s.expire_on_commit = False
            commit()                     # everything stays loaded
            s.expire_on_commit = True    # (stays on for the rest of the history)
            h.flags["expire_on_commit"] = True
        h.scan()
        if h.violated:
            return ("idle_commit", kind)
        ext_write()
        mark = rig.spy.mark()
        commit()                         # the transaction emitted no SQL
        if not rig.nstatements(mark):
            ctx.count("idle_commits")
        return ("idle_commit", kind)

    def read_after_failed_load():
        """Input class: the refresh SELECT of the first read of an expired attribute raises;
        the caller reads again without rollback / expire / refresh in between."""
        import sqlalchemy.exc as sa_exc
        import sqlalchemy.orm.exc as orm_exc

        pk = some_obj()
        if pk is None:
            return None
        o = h.objs[pk]
        a = rng.choice(ATTRS)
        if h.pend or s.dirty or s.new or s.deleted:
            return None          # (nothing to autoflush: the only statement of the read is the refresh SELECT)
        s.expire(o)
        h.expire_shadow([pk])
        kind = rng.choice(["dbapi_error", "detached"])
        if kind == "dbapi_error":
            fired = []

            def fault(ev):
                if not fired and ev.kind == "execute" and str(ev.sql).lstrip().upper().startswith("SELECT"):
                    fired.append(1)
                    return sqlite3.OperationalError("database is locked")
                return None

            rig.spy.fault = fault
            try:
                getattr(o, a)
                raised = None
            except sa_exc.OperationalError as e:
                raised = e
            finally:
                rig.spy.fault = None
            if raised is None:
                if fired:
                    h.viol("read-swallowed-load-error", f"A({pk}).{a}: the refresh SELECT failed but the read returned", pk=pk, attr=a)
                return ("read_after_failed_load", kind, "no-load")
        else:
            s.expunge(o)
            try:
                getattr(o, a)
                h.viol("read-of-expired-detached-attribute-returned", f"A({pk}).{a} expired + detached: read did not raise", pk=pk, attr=a)
                return ("read_after_failed_load", kind)
            except orm_exc.DetachedInstanceError:
                pass
            s.add(o)
        ctx.count("failed_loads_injected")
        v = h.getattr(pk, a)             # the retry
        if not h.violated:
            h.check_expired_read(pk, a, v, "retry-after-failed-load")
        return ("read_after_failed_load", kind)

    def set_():
        pk = some_obj()
        if pk is None:
            return None
        a = rng.choice(ATTRS)
        v = h.uniq("l")
        setattr(h.objs[pk], a, v)
        h.shadow[(pk, a)] = ("val", v)
        h.pend[(pk, a)] = v
        h.extdirty.discard((pk, a))
        return ("set",)

    def expire():
        pk = some_obj()
        if pk is None:
            return None
        s.expire(h.objs[pk])
        h.expire_shadow([pk])
        return ("expire",)

    def expire_attrs():
        pk = some_obj()
        if pk is None:
            return None
        attrs = rng.sample(ATTRS, rng.randint(1, 2))
        s.expire(h.objs[pk], attrs)
        h.expire_shadow([pk], attrs)
        ctx.count("partial_expire_ops")
        return ("expire_attrs", len(attrs))

    def expire_all():
        s.expire_all()
        h.expire_shadow()
        return ("expire_all",)

    def refresh():
        pk = some_obj()
        if pk is None:
            return None
        partial = rng.random() < 0.5
        attrs = rng.sample(ATTRS, rng.randint(1, 2)) if partial else None
        # documented order: expire the named attributes (pending values on them are
        # discarded), autoflush the rest, load
        h.expire_shadow([pk], attrs or ATTRS)
        if attrs:
            s.refresh(h.objs[pk], attrs)
        else:
            s.refresh(h.objs[pk])
        ctx.count("refresh_ops")
        for a in (attrs or ATTRS):
            if a == "z" and attrs is None and h.flags["deferred_z"]:
                continue   # an unqualified refresh leaves a deferred column deferred
            if a not in h.objs[pk].__dict__:
                h.viol("refresh-left-attribute-unloaded", f"A({pk}).{a} not loaded after refresh", pk=pk, attr=a)
        if s.autoflush:
            h.pending_reached_db("autoflush-in-refresh")
        return ("refresh", "partial" if partial else "full")

    def commit():
        s.commit()
        h.pending_reached_db("commit")
        if s.expire_on_commit:
            h.expire_shadow()
            ctx.count("commit_expire_ops")
        return ("commit",)

    def rollback():
        # rollback() without a transaction in progress is a no-op (nothing is expired)
        active = s.in_transaction()
        s.rollback()
        if active:
            h.expire_shadow()
        return ("rollback", active)

    def flush():
        s.flush()
        h.pending_reached_db("flush")
        return ("flush",)

    def query():
        kind = rng.choice(["plain", "plain_one", "populate_existing", "populate_existing_one", "get_pe",
                           "pe_legacy_query", "pe_subset_text", "pe_subset_text_one"])
        pk = rng.choice([1, 2, 3])
        pe = kind != "plain" and kind != "plain_one"
        if pe:
            hit = [pk] if kind in ("populate_existing_one", "get_pe", "pe_subset_text_one") else [1, 2, 3]
            hit = [k for k in hit if k in h.objs]
            # rows returned by a populate_existing load are overwritten: pending values on
            # them survive only through an autoflush that precedes the SELECT
            if s.autoflush and kind in ("populate_existing", "populate_existing_one", "pe_legacy_query"):
                flushed = dict(h.pend)
            else:
                flushed = None
                for k in hit:
                    for a in ATTRS:
                        h.pend.pop((k, a), None)
            h.expire_shadow(hit, drop_pending=False)
            ctx.count("populate_existing_ops")
        if kind == "plain":
            res = s.scalars(select(A)).all()
        elif kind == "plain_one":
            res = s.scalars(select(A).where(A.id == pk)).all()
        elif kind == "populate_existing":
            res = s.scalars(select(A).execution_options(populate_existing=True)).all()
        elif kind == "populate_existing_one":
            res = s.scalars(select(A).where(A.id == pk).execution_options(populate_existing=True)).all()
        elif kind == "get_pe":
            res = [s.get(A, pk, populate_existing=True)]
        elif kind == "pe_legacy_query":
            res = s.query(A).populate_existing().all()
        else:
            # input class: the populate_existing row LACKS normally loaded columns (a textual
            # SELECT of a subset; with joined inheritance every base-class SELECT is such a row
            # for the sub-table columns): they must end up refreshed or expired, never stale
            cols = "id, kind, x" if h.flags.get("inheritance") else rng.choice(["id, x", "id, y, z", "id"])
            where = " WHERE id = %d" % pk if kind == "pe_subset_text_one" else ""
            res = s.scalars(select(A).from_statement(text(f"SELECT {cols} FROM a{where}"))
                            .execution_options(populate_existing=True)).all()
            ctx.count("populate_existing_subset_rows", len(res))
        for o in res:
            k = o.__dict__.get("id")
            if k is not None and k not in h.objs:
                h.objs[k] = o
                for a in ATTRS:
                    h.shadow[(k, a)] = EXP
        if pe and flushed is not None:
            h.pend = flushed
            h.pending_reached_db("autoflush-before-populate_existing")
        return ("query", kind)

    return [(ext_write, 16), (load, 6), (read, 14), (set_, 8), (expire, 5), (expire_attrs, 7), (expire_all, 3),
            (refresh, 7), (commit, 6), (rollback, 4), (flush, 4), (query, 9), (idle_commit, 4),
            (read_after_failed_load, 4)]


def one_history(ctx, rig, flags, length):
    rng = ctx.rng
    rig.wipe()
    if flags.get("inheritance"):
        rig.obs.execute("INSERT INTO a (id, kind, x) VALUES (1,'sub','x1'),(2,'sub','x2'),(3,'sub','x3')")
        rig.obs.execute("INSERT INTO a_sub (id, y, z) VALUES (1,'y1','z1'),(2,'y2','z2'),(3,'y3','z3')")
    else:
        rig.obs.execute("INSERT INTO a (id, x, y, z) VALUES (1,'x1','y1','z1'),(2,'x2','y2','z2'),(3,'x3','y3','z3')")
    s = rig.session(autoflush=flags["autoflush"], expire_on_commit=flags["expire_on_commit"])
    h = Hist(ctx, rig, s, flags)
    table = build_ops(h)
    fns = [f for f, w in table]
    weights = [w for f, w in table]
    names = []
    try:
        for step in range(length):
            fn = rng.choices(fns, weights)[0]
            h.trace.append(fn.__name__)
            d = fn()
            if d is None:
                h.trace[-1] = fn.__name__ + ":n/a"
                continue
            h.trace[-1] = d
            names.append(d[0] if d[0] != "query" else d[1])
            ctx.seen("ops", names[-1])
            h.scan()
            if h.violated:
                break
        if not h.violated:
            # closing: everything expired, every attribute read back
            s.rollback()
            s.expire_all()
            h.trace.append(("final-expire_all",))
            h.expire_shadow()
            for pk, o in h.objs.items():
                for a in ATTRS:
                    if not h.violated:
                        h.getattr(pk, a)
            if not h.violated:
                h.scan()
    finally:
        s.close()
        rig.sessions.remove(s)
    ctx.case({"flags": flags, "ops": names}, nontrivial=h.good > 0)
    return h


def run(ctx):
    from vf.gen import ormrig_gj as R

    warnings.simplefilter("ignore")
    nhist = ctx.pick({"quick": 100, "thorough": 3000})
    sampled = 0
    for variant in ("plain", "deferred", "inheritance"):
        deferred = variant == "deferred"
        if variant == "inheritance":
            rig = R.Rig(ctx, [R.zoo_flat_inh])
        else:
            rig = R.Rig(ctx, [lambda sa, orm, reg, d=deferred: R.zoo_flat(sa, orm, reg, deferred_z=d)])
        try:
            for k in range(nhist if variant == "plain" else max(4, nhist // (4 if deferred else 2))):
                if not ctx.budget_ok():
                    break
                flags = {"autoflush": ctx.rng.random() < 0.6, "expire_on_commit": ctx.rng.random() < 0.7,
                         "deferred_z": deferred, "inheritance": variant == "inheritance"}
                h = one_history(ctx, rig, flags, ctx.rng.randint(15, 40))
                if sampled < 3 and h.good:
                    ctx.sample({"flags": flags, "ops": h.trace[:30]})
                    sampled += 1
        finally:
            rig.close()
