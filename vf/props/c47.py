"""C47 -- with autoflush on, queries see all pending changes.

Twin sessions over byte-identical copies of one generated database (mapping zoo of
``vf/gen/ormrig_gl.py``) receive the same generated history of *pending* changes (new
objects linked through many-to-one attributes or collection appends, scalar sets,
re-parenting, collection append / remove incl. many-to-many, deletes, delete followed by
re-add (and delete again / re-add again) of the same persistent object).  Then the same
read operation runs in both:

  twin A  relies on autoflush:            op()
  twin B  same configuration, but:        flush(); op()

Read operations: 2.0 selects of entities / columns with predicates on modified columns,
joins and any() through modified relationships, aggregates, ORM UNION (compound select),
legacy Query all / count / first, ``Session.get`` of a pending object's key, of a deleted
object's key and of an unloaded key, lazy load of an expired collection whose members
were re-parented, lazy load of a many-to-one, lazy load of ``viewonly=True`` relationships
(filtered one-to-many ``A.hot_bs``, filtered many-to-many ``T.big_owners``).

Round 2 adds every Session entry point x statement kind (``scalar`` / ``execute`` /
``scalars`` with a Core ``Table`` select or ``text()``, ORM ``scalar``, ``get_one``, a Core
no-op UPDATE judged by its rowcount) and *deferred fetches*: a lead ORM SELECT with a
post-load loader (selectinload / subqueryload / immediateload / the mapper default) is
executed first, the pending changes are made afterwards - before its rows are fetched, or
between ``yield_per`` / ``partitions()`` batches - and the collections the post-load
SELECTs build are compared (the gap never writes the lead table itself).

Oracle: (1) result snapshots (identity + loaded column values read from ``__dict__``;
scalars as values) are equal twin vs twin; an exception in one twin must occur in the
other (same type); (2) DBAPI spy: the multiset of INSERT/UPDATE/DELETE statements twin A
emits during op() equals the one twin B emits in its explicit flush(), and in twin A every
one of them precedes the final SELECT of the operation.

(3) a two-line reference model of Session.delete()/Session.add(): after the flush (explicit
in twin B, automatic in twin A when its read queried the database) the row of an object
exists iff its last delete / re-add operation was the re-add - read through
``exec_driver_sql`` on the session's own connection.  Objects that the same history also
attaches to a parent are left out (attaching cancels a pending delete by design).

Negative control (never asserted equal): a third twin runs op() inside
``session.no_autoflush`` / with ``autoflush=False`` execution option / in an
``autoflush=False`` session; the run is inconclusive unless that control differs from
twin B in at least one case (``negative_control_differs``), which shows that the
histories really leave observable pending state.

Guards: for a lazy-load read the attribute is unloaded at the moment of the read in *both*
twins: the explicit flush of twin B can load it as a side effect of its own cascade loads
(mapper-level eager loaders run there, before the DELETEs), after which the read would be
served from memory with the documented stale-collection semantics - twin B expires it
again after the flush.  A many-to-one lazy load or a get() served from the identity map emits no statement
and therefore does not autoflush (by design): such reads are counted
(``reads_without_sql`` / ``skipped_get-of-present-identity``) and not judged; lazy loads
are issued only from persistent objects (a lazy load on a *pending*
object does not autoflush by design); all selects carry a total ORDER BY; histories whose
flush fails (e.g. the unique one-to-one FK) are held when both twins raise.

Fired on the unchanged tree when written (fixed in /repo by 3c7bb33; proposed patch in
selftest/C47/proposed_fixes): ``pending-delete-survives-flush:deleted-object-also-attached-to-parent``
- an object that is marked deleted (``Session.delete`` or a delete cascade) and, in the
same unit of work, attached to a parent (many-to-one set / collection append) has its
delete cancelled by the one-to-many dependency processor
(``register_object(cancel_delete=True)``) but stays in ``Session.deleted``; the *next*
flush deletes it.  A query after ``c.b = b; session.delete(c)`` therefore still returns
``c`` (one autoflush), and returns it no more when repeated.
"""
from __future__ import annotations

import shutil

META = {
    "id": "C47",
    "level": "exploration",
    "technique": "twin-session differential (autoflush vs explicit flush) with a DBAPI spy ordering check, plus a no_autoflush negative control",
    "level_text": "Generated histories of pending adds / modifications / deletes / re-parenting over generated mappings, followed by each kind of read (select, join, any(), aggregate, compound select, legacy Query, Session.get of absent / pending / deleted identities, lazy loads); results compared between a session relying on autoflush and one flushing explicitly, and the spy shows the autoflush DML before the SELECT.",
    "level_note": "SQLite only. Core statements without ORM entities, bulk UPDATE/DELETE (C43), refresh/expire (C46) and event-hook-initiated queries inside a flush are out of scope. Histories are bounded (<= 6 operations).",
    "design_ref": "DESIGN.md section 4, C47",
    "rule": "case = (mapping knobs, population, history, read operation); non-trivial = twin B's explicit flush emitted >= 1 DML statement; distinct by (history, read operation)",
    "shards": {"quick": 8, "thorough": 16},
    "modes": ["cext"],
    "soft_s": {"quick": 45, "thorough": 600},
    "exhaustive": {"quick": False, "thorough": False},
    "require": ["cases_compared", "autoflush_dml_observed", "dml_before_select_checked", "negative_control_differs",
                "get_ops", "lazy_ops", "legacy_ops", "viewonly_lazy_ops", "readd_histories",
                "readd_or_delete_rows_checked", "core_scalar_ops", "entrypoint_ops", "deferred_fetch_ops"],
    "assumptions": ["an explicit Session.flush() followed by the read defines the reference result"],
}

SETTABLE = {"A": [("x", [0, 1, 2, 3, 9]), ("grp", [0, 1, 2]), ("name", ["ann", "bob", "new"])],
            "B": [("pos", [0, 1, 2, 3, 9]), ("val", ["u", "v", "new"])],
            "C": [("q", [0, 1, 2, 7, 9])],
            "T": [("label", ["red", "blue", "new"])],
            "P": [("bio", ["x", "y", "new"])],
            "E": [("ename", ["kim", "lee", "new"])]}
TABLE = {"A": "a", "B": "b", "C": "c", "T": "t", "P": "p", "E": "e", "Eng": "e", "Mgr": "e"}


def fam(c):
    return "E" if c in ("Eng", "Mgr") else c


def pks(pop, cls):
    return [r["id"] for r in pop[TABLE[cls]]]


# --------------------------------------------------------------------------
# histories
# --------------------------------------------------------------------------
def gen_history(rng, zoo, pop):
    hist = []
    next_pk = {"A": 100, "B": 100, "C": 100, "T": 100, "P": 100, "E": 100}
    new = {k: [] for k in next_pk}
    n = rng.randint(1, 6)
    have_profile = {r["a_id"] for r in pop["p"] if r["a_id"] is not None}
    for _ in range(n):
        r = rng.random()
        if r < 0.3:
            cls = rng.choice(["B", "B", "C", "A", "T", "P", "Eng", "Mgr", "E"])
            f = fam(cls)
            pk = next_pk[f]
            next_pk[f] += 1
            vals = {c: rng.choice(vs) for c, vs in SETTABLE[f]}
            op = {"op": "new", "cls": cls, "pk": pk, "vals": vals, "link": None}
            if cls == "B":
                a = rng.choice(pks(pop, "A") + new["A"] + [None])
                if a is not None:
                    op["link"] = rng.choice([["m2o", "a", "A", a], ["append", "A", a, "bs"]])
            elif cls == "C":
                b = rng.choice(pks(pop, "B") + new["B"] + [None])
                if b is not None:
                    op["link"] = rng.choice([["m2o", "b", "B", b], ["append", "B", b, "cs"]])
            elif cls == "A":
                a = rng.choice(pks(pop, "A") + [None])
                if a is not None:
                    op["link"] = rng.choice([["m2o", "parent", "A", a], ["append", "A", a, "children"]])
            elif cls == "T":
                a = rng.choice(pks(pop, "A"))
                op["link"] = ["append", "A", a, "tags"]
            elif cls == "P":
                free = [a for a in pks(pop, "A") if a not in have_profile]
                if free:
                    a = rng.choice(free)
                    have_profile.add(a)
                    op["link"] = ["m2o", "a", "A", a]
            else:
                a = rng.choice(pks(pop, "A") + new["A"])
                op["link"] = rng.choice([["m2o", "a", "A", a], ["append", "A", a, "es"]])
                if cls == "Eng":
                    vals["lang"] = rng.choice(["py", "c", None])
                elif cls == "Mgr":
                    vals["level"] = rng.choice([1, 2, None])
            new[f].append(pk)
            hist.append(op)
        elif r < 0.55:
            cls = rng.choice(["A", "A", "B", "B", "C", "T", "P", "E"])
            cand = pks(pop, cls) + new[cls]
            if not cand:
                continue
            col, vs = rng.choice(SETTABLE[cls])
            hist.append({"op": "set", "cls": cls, "pk": rng.choice(cand), "col": col, "v": rng.choice(vs)})
        elif r < 0.7:
            which = rng.choice([("B", "a", "A"), ("B", "a", "A"), ("C", "b", "B"), ("A", "parent", "A")])
            cls, rel, t = which
            cand = pks(pop, cls) + new[cls]
            if not cand:
                continue
            pk = rng.choice(cand)
            tc = [x for x in pks(pop, t) + new[t] if not (t == cls and x >= pk)] + [None]
            hist.append({"op": "set_m2o", "cls": cls, "pk": pk, "rel": rel, "tcls": t, "target": rng.choice(tc)})
        elif r < 0.88:
            which = rng.choice([("A", "tags", "T"), ("A", "bs", "B"), ("B", "cs", "C"), ("T", "owners", "A")])
            cls, rel, t = which
            cand, tc = pks(pop, cls) + new[cls], pks(pop, t) + new[t]
            if not cand or not tc:
                continue
            hist.append({"op": rng.choice(["append", "remove", "remove"]), "cls": cls, "pk": rng.choice(cand),
                         "rel": rel, "tcls": t, "target": rng.choice(tc)})
        else:
            cls = rng.choice(["C", "C", "B", "P", "T", "E"])
            cand = pks(pop, cls)
            if not cand:
                continue
            pk = rng.choice(cand)
            hist.append({"op": "delete", "cls": cls, "pk": pk})
            # delete then re-add (Session.add of an object marked deleted cancels the
            # pending delete), possibly deleted and re-added again
            r2 = rng.random()
            if r2 < 0.35:
                hist.append({"op": "readd", "cls": cls, "pk": pk})
                if r2 < 0.12:
                    hist.append({"op": "delete", "cls": cls, "pk": pk})
                    if r2 < 0.06:
                        hist.append({"op": "readd", "cls": cls, "pk": pk})
    return hist


def apply_history(zoo, s, hist):
    """Interpret a history in one session.  Returns the list of per-op outcomes
    ("ok" / exception type name): twins must agree on it."""
    from sqlalchemy import exc as sa_exc

    objs = {}

    def obj(cls, pk):
        k = (fam(cls), pk)
        if k not in objs:
            objs[k] = s.get(zoo.cls[fam(cls)], pk)
        return objs[k]

    out = []
    for op in hist:
        try:
            kind = op["op"]
            if kind == "new":
                o = zoo.cls[op["cls"]](id=op["pk"], **op["vals"])
                link = op["link"]
                if fam(op["cls"]) == "E" and link is None:
                    raise AssertionError("E needs an owner")
                if link and link[0] == "m2o":
                    setattr(o, link[1], obj(link[2], link[3]))
                    s.add(o)
                elif link:
                    getattr(obj(link[1], link[2]), link[3])
                    coll = getattr(obj(link[1], link[2]), link[3])
                    (coll.add if isinstance(coll, set) else coll.append)(o)
                    s.add(o)
                else:
                    s.add(o)
                objs[(fam(op["cls"]), op["pk"])] = o
            elif kind == "set":
                setattr(obj(op["cls"], op["pk"]), op["col"], op["v"])
            elif kind == "set_m2o":
                t = None if op["target"] is None else obj(op["tcls"], op["target"])
                setattr(obj(op["cls"], op["pk"]), op["rel"], t)
            elif kind in ("append", "remove"):
                owner, t = obj(op["cls"], op["pk"]), obj(op["tcls"], op["target"])
                if owner is None or t is None:
                    raise LookupError("gone")
                coll = getattr(owner, op["rel"])
                if kind == "append":
                    if t not in coll:
                        (coll.add if isinstance(coll, set) else coll.append)(t)
                else:
                    coll.remove(t)
            elif kind == "delete":
                o = obj(op["cls"], op["pk"])
                if o is None:
                    raise LookupError("gone")
                s.delete(o)
            elif kind == "readd":
                o = obj(op["cls"], op["pk"])
                if o is None:
                    raise LookupError("gone")
                s.add(o)
            out.append("ok")
        except (ValueError, KeyError, LookupError, AttributeError) as e:
            # e.g. remove() of a non-member, attribute of a row that does not exist:
            # same in every twin, recorded and skipped
            out.append(type(e).__name__)
        except sa_exc.SQLAlchemyError as e:
            # loading an object for the history autoflushed and that flush failed: the
            # case is abandoned (same in every twin)
            out.append("abort:" + type(e).__name__)
            break
    return out, objs


# --------------------------------------------------------------------------
# read operations
# --------------------------------------------------------------------------
def gen_read(rng, zoo, pop, hist):
    touched = [(op["cls"], op.get("col")) for op in hist if op["op"] == "set"]
    new_objs = [(fam(op["cls"]), op["pk"]) for op in hist if op["op"] == "new"]
    deleted = [(op["cls"], op["pk"]) for op in hist if op["op"] == "delete"]
    reparent = [op for op in hist if op["op"] in ("set_m2o", "append", "remove") or (op["op"] == "new" and op["link"])]
    r = rng.random()

    def pred_for(cls):
        if touched and rng.random() < 0.6:
            tc = [(c, col) for c, col in touched if c == cls]
            if tc:
                col = rng.choice(tc)[1]
                vs = dict(SETTABLE[cls])[col]
                return {"col": col, "op": rng.choice(["eq", "ne", "ge"] if isinstance(vs[0], int) else ["eq", "ne"]),
                        "v": rng.choice(vs)}
        col, vs = rng.choice(SETTABLE[cls])
        return {"col": col, "op": rng.choice(["eq", "ne", "ge"] if isinstance(vs[0], int) else ["eq", "ne"]),
                "v": rng.choice(vs)}

    def pick_cls():
        cands = [c for c, _ in touched] + [c for c, _ in new_objs] + [fam(c) for c, _ in deleted]
        return rng.choice(cands) if cands and rng.random() < 0.75 else rng.choice(["A", "B", "C", "T", "P", "E"])

    if r < 0.14:
        # every Session entry point x statement kind: Core Table selects, text(), ORM
        # scalar(), get_one(), a Core DML statement
        cls = pick_cls()
        return {"kind": rng.choice(["core_scalar_table", "core_scalar_text", "core_scalar_table", "core_scalar_text",
                                    "core_execute_table", "core_execute_text", "core_scalars_table",
                                    "orm_scalar", "get_one", "core_dml_rowcount"]),
                "cls": cls, "pred": pred_for(cls) if rng.random() < 0.6 else None,
                "pk": rng.choice([x[1] for x in new_objs if x[0] == cls] + pks(pop, cls)[:2] + [999])}
    if r < 0.26:
        # a lead ORM SELECT with a post-load loader is executed *first*; the pending changes
        # are made before (the rest of) its rows are fetched
        lead, rel = rng.choice([("A", "bs"), ("A", "bs"), ("A", "es"), ("A", "tags"), ("B", "cs"), ("T", "owners")])
        return {"kind": "deferred", "cls": lead, "rel": rel,
                "loader": rng.choice(["selectin", "selectin", "subquery", "immediate", "mapper_default"]),
                "how": rng.choice(["execute_then_fetch", "execute_then_fetch", "yield_per", "partitions"])}
    if r < 0.38:
        cls = pick_cls()
        return {"kind": rng.choice(["select_ents", "select_ents", "select_cols", "count", "legacy_all",
                                    "legacy_count", "legacy_first", "union", "exec_opt_scalars"]),
                "cls": cls, "pred": pred_for(cls) if rng.random() < 0.7 else None}
    if r < 0.50:
        j = rng.choice([("B", "a", "A"), ("C", "b", "B"), ("A", "bs", "B"), ("A", "tags", "T"), ("E", "a", "A"),
                        ("A", "children", "A"), ("P", "a", "A")])
        return {"kind": rng.choice(["join", "any_has", "legacy_join"]), "cls": j[0], "rel": j[1], "tcls": j[2],
                "pred": pred_for(j[2])}
    if r < 0.68:
        # Session.get of a pending object's key / a deleted key / an existing key
        pool = []
        if new_objs:
            pool += [rng.choice(new_objs)] * 3
        if deleted:
            pool += [(fam(deleted[0][0]), deleted[0][1])] * 2
        cls = rng.choice(["A", "B", "C", "T", "P", "E"])
        if pks(pop, cls):
            pool.append((cls, rng.choice(pks(pop, cls))))
        pool.append((cls, 999))
        c, pk = rng.choice(pool)
        return {"kind": "get", "cls": c, "pk": pk}
    if r < 0.9:
        # lazy load of an (expired) relationship on a persistent object, preferably one
        # whose membership was changed from the other side
        cands = []
        for op in reparent:
            if op["op"] == "set_m2o":
                ri = zoo.rel(op["cls"], op["rel"])
                back = [n for n in zoo.relnames(ri.target)
                        if zoo.rel(ri.target, n).fk_col == ri.fk_col and zoo.rel(ri.target, n).fk_table == ri.fk_table
                        and zoo.rel(ri.target, n).direction in ("o2m", "o2o")]
                if op["target"] is not None and op["target"] < 100 and back:
                    cands.append((ri.target, op["target"], back[0]))
            elif op["op"] == "new" and op["link"] and op["link"][0] == "m2o" and op["link"][3] < 100:
                ri = zoo.rel(fam(op["cls"]), op["link"][1])
                back = [n for n in zoo.relnames(ri.target)
                        if zoo.rel(ri.target, n).fk_col == ri.fk_col and zoo.rel(ri.target, n).fk_table == ri.fk_table
                        and zoo.rel(ri.target, n).direction in ("o2m", "o2o")]
                if back:
                    cands.append((ri.target, op["link"][3], back[0]))
            elif op["op"] in ("append", "remove") and op["pk"] < 100:
                cands.append((op["cls"], op["pk"], op["rel"]))
        if rng.random() < 0.25:
            # a viewonly relationship over rows that writable attributes have pending changes for
            (c, rel) = rng.choice(sorted(zoo.view_rels))
            if pks(pop, c):
                pk = None
                for op in hist:   # prefer an owner touched by the history
                    if c == "A" and op["op"] == "new" and op["link"] and op["link"][-2:] != [] and fam(op["cls"]) == "B":
                        lk = op["link"]
                        pk = lk[3] if lk[0] == "m2o" else lk[2]
                    elif c == "A" and op["op"] == "set_m2o" and op["cls"] == "B" and op["target"] is not None:
                        pk = op["target"]
                    elif c == "T" and op["op"] in ("append", "remove") and op["rel"] == "tags":
                        pk = op["target"]
                if pk is None or pk >= 100 or pk not in pks(pop, c) or rng.random() < 0.3:
                    pk = rng.choice(pks(pop, c))
                return {"kind": "lazy", "cls": c, "pk": pk, "rel": rel, "viewonly": True}
        if cands and rng.random() < 0.8:
            c, pk, rel = rng.choice(cands)
        else:
            c = rng.choice(["A", "A", "B", "T"])
            if not pks(pop, c):
                c = "A"
            pk = rng.choice(pks(pop, c))
            rel = rng.choice([n for n in zoo.relnames(c)])
        return {"kind": "lazy", "cls": c, "pk": pk, "rel": rel}
    cls = pick_cls()
    col = next((c for c, vs in SETTABLE[cls] if isinstance(vs[0], int)), None)
    return {"kind": "agg", "cls": cls, "col": col or "id", "func": rng.choice(["max", "sum", "count"])}


def build_pred(ent, p):
    c = getattr(ent, p["col"])
    return {"eq": c == p["v"], "ne": c != p["v"], "ge": c >= p["v"]}[p["op"]]


class Raw:
    """Objects returned by a read, canonicalised only after the spy log was captured."""

    def __init__(self, kind, value):
        self.kind, self.value = kind, value


def ent_row(R, zoo, o):
    """identity + every column value (plain attribute access: an unloaded / deferred
    column is loaded here, after the read's statements were recorded)."""
    if o is None:
        return None
    vals = {}
    for k in zoo.cols[type(o).__name__]:
        try:
            vals[k] = getattr(o, k)
        except Exception as e:   # e.g. ObjectDeletedError on an object whose row is gone
            vals[k] = "raises:" + type(e).__name__
    return [R.ident(o), vals]


def canon(R, zoo, raw):
    if not isinstance(raw, Raw):
        return raw
    if raw.kind == "ents":
        return [ent_row(R, zoo, o) for o in raw.value]
    return ent_row(R, zoo, raw.value)


def do_read(sa, orm, R, zoo, s, rd, objs, control=None):
    """Run the read in session ``s``; returns a JSON-able canonical result.
    ``control``: None | "no_autoflush_block" | "exec_option" (negative controls)."""
    kind = rd["kind"]
    K = zoo.cls[rd["cls"]]
    eo = {"autoflush": False} if control == "exec_option" else {}

    def ex(stmt):
        return s.execute(stmt, execution_options=eo)

    if kind.startswith("core_") or kind == "orm_scalar":
        t = zoo.tables[TABLE[rd["cls"]]]
        p = rd["pred"]
        if kind.endswith("_text"):
            w, params = "1 = 1", {}
            if p:
                w = f"{p['col']} {dict(eq='=', ne='!=', ge='>=')[p['op']]} :v"
                params = {"v": p["v"]}
            if kind == "core_scalar_text":
                return s.scalar(sa.text(f"SELECT count(*) FROM {t.name} WHERE {w}"), params, execution_options=eo)
            return [list(r) for r in s.execute(sa.text(f"SELECT id FROM {t.name} WHERE {w} ORDER BY id"), params,
                                               execution_options=eo)]
        crit = sa.true() if not p else {"eq": t.c[p["col"]] == p["v"], "ne": t.c[p["col"]] != p["v"],
                                        "ge": t.c[p["col"]] >= p["v"]}[p["op"]]
        if kind == "core_scalar_table":
            return s.scalar(sa.select(sa.func.count()).select_from(t).where(crit), execution_options=eo)
        if kind == "core_execute_table":
            return [list(r) for r in s.execute(sa.select(t.c.id).where(crit).order_by(t.c.id), execution_options=eo)]
        if kind == "core_scalars_table":
            return list(s.scalars(sa.select(t.c.id).where(crit).order_by(t.c.id), execution_options=eo))
        if kind == "orm_scalar":
            return s.scalar(sa.select(sa.func.count(K.id)).where(build_pred(K, p) if p else sa.true()),
                            execution_options=eo)
        if kind == "core_dml_rowcount":
            # a no-op Core UPDATE (col = col): its rowcount is the number of rows matching now
            col = SETTABLE[rd["cls"]][0][0]
            return s.execute(sa.update(t).where(crit).values({col: t.c[col]}), execution_options=eo).rowcount
        raise AssertionError(kind)
    if kind == "get_one":
        return Raw("ent", s.get_one(K, rd["pk"], execution_options=eo))
    if kind == "deferred":
        return finish_deferred(sa, orm, R, zoo, s, rd, objs)
    if kind in ("select_ents", "exec_opt_scalars"):
        st = sa.select(K).order_by(K.id)
        if rd["pred"]:
            st = st.where(build_pred(K, rd["pred"]))
        if kind == "exec_opt_scalars":
            return Raw("ents", list(s.scalars(st.execution_options(populate_existing=False),
                                              execution_options=eo).unique()))
        return Raw("ents", list(ex(st).unique().scalars()))
    if kind == "select_cols":
        col = SETTABLE[rd["cls"]][0][0]
        st = sa.select(K.id, getattr(K, col)).order_by(K.id)
        if rd["pred"]:
            st = st.where(build_pred(K, rd["pred"]))
        return [list(r) for r in ex(st)]
    if kind == "count":
        st = sa.select(sa.func.count()).select_from(K)
        if rd["pred"]:
            st = st.where(build_pred(K, rd["pred"]))
        return ex(st).scalar()
    if kind == "union":
        p = rd["pred"] or {"col": "id", "op": "ge", "v": 0}
        st = sa.union(sa.select(K.id).where(build_pred(K, p)), sa.select(K.id).where(K.id >= 100)).order_by("id")
        return [list(r) for r in ex(st)]
    if kind in ("legacy_all", "legacy_count", "legacy_first"):
        q = s.query(K)
        if control == "exec_option":
            q = q.autoflush(False)
        if rd["pred"]:
            q = q.filter(build_pred(K, rd["pred"]))
        if kind == "legacy_count":
            return q.count()
        q = q.order_by(K.id.desc())
        if kind == "legacy_first":
            return Raw("ent", q.first())
        return Raw("ents", q.all())
    if kind in ("join", "any_has", "legacy_join"):
        T = zoo.cls[rd["tcls"]]
        tent = orm.aliased(T) if rd["tcls"] == rd["cls"] else T
        attr = getattr(K, rd["rel"])
        if kind == "any_has":
            ri = zoo.rel(rd["cls"], rd["rel"])
            crit = (attr.any if ri.uselist else attr.has)(build_pred(T, rd["pred"]))
            return Raw("ents", list(ex(sa.select(K).where(crit).order_by(K.id)).unique().scalars()))
        if kind == "legacy_join":
            q = s.query(K.id, tent.id).join(attr.of_type(tent)).filter(build_pred(tent, rd["pred"]))
            if control == "exec_option":
                q = q.autoflush(False)
            return [list(r) for r in q.order_by(K.id, tent.id).all()]
        st = (sa.select(K.id, tent.id).join(attr.of_type(tent)).where(build_pred(tent, rd["pred"]))
              .order_by(K.id, tent.id))
        return [list(r) for r in ex(st)]
    if kind == "agg":
        st = sa.select(getattr(sa.func, rd["func"])(getattr(K, rd["col"])))
        return ex(st).scalar()
    if kind == "get":
        return Raw("ent", s.get(K, rd["pk"], execution_options=eo))
    if kind == "lazy":
        o = objs[(rd["cls"], rd["pk"])]
        v = getattr(o, rd["rel"])
        ri = zoo.view_rels[(rd["cls"], rd["rel"])] if rd.get("viewonly") else zoo.rel(rd["cls"], rd["rel"])
        if not ri.uselist:
            return R.ident(v)
        ids = [R.ident(x) for x in v]
        return ids if (ri.total and ri.coll == "list") else sorted(ids)
    raise AssertionError(kind)


def start_deferred(sa, orm, R, zoo, s, rd):
    """Execute the lead statement (nothing is pending yet) and, for the batch forms, fetch
    the first batch; returns the handle kept in ``objs["__deferred__"]``."""
    K = zoo.cls[rd["cls"]]
    st = sa.select(K).order_by(K.id)
    fn = {"selectin": orm.selectinload, "subquery": orm.subqueryload, "immediate": orm.immediateload}
    how = rd["how"]
    loader = rd["loader"]
    if how != "execute_then_fetch" and loader == "subquery":
        loader = "selectin"       # yield_per rejects subquery eager loading (documented)
    if loader == "mapper_default" and zoo.rel(rd["cls"], rd["rel"]).lazy not in ("selectin", "immediate") + (
            ("subquery",) if how == "execute_then_fetch" else ()):
        # the mapper default is not a post-load loader (joined: the related rows would come
        # from the lead cursor, opened before the gap; select: nothing is loaded at all)
        loader = "selectin"
    if loader != "mapper_default":
        st = st.options(fn[loader](getattr(K, rd["rel"])))
    if how != "execute_then_fetch":
        st = st.execution_options(yield_per=1)
    res = s.execute(st)
    first = []
    if how == "yield_per":
        first = [res.fetchone()[0]]
    elif how == "partitions":
        first = [r[0] for r in next(res.partitions(1))]
    first = [o for o in first if o is not None]
    return {"res": res, "first": first}


def finish_deferred(sa, orm, R, zoo, s, rd, objs):
    h = objs["__deferred__"]
    rest = [r[0] for r in (h["res"] if rd["how"] != "execute_then_fetch" else h["res"].unique())]
    ri = zoo.rel(rd["cls"], rd["rel"])
    out = []
    for o in h["first"] + rest:
        v = getattr(o, rd["rel"])
        ids = [R.ident(x) for x in v]
        out.append([R.ident(o), ids if (ri.total and ri.coll == "list") else sorted(ids)])
    return out


def touches_table(op, cls):
    """Does a history operation write rows of ``cls``'s own table?"""
    if op["op"] in ("new", "set", "set_m2o", "delete", "readd"):
        return fam(op["cls"]) == cls
    return False


def is_dml(sql):
    return sql.lstrip().split(None, 1)[0].upper() in ("INSERT", "UPDATE", "DELETE")


def is_select(sql):
    return sql.lstrip().split(None, 1)[0].upper() == "SELECT"


def flat_dml(events):
    """DML statements, executemany expanded to one entry per parameter set (the order of
    parameter sets inside one executemany follows set iteration and is not compared)."""
    out = []
    for e in events:
        if is_dml(e.sql):
            if e.kind == "executemany":
                out.extend((e.sql, repr(tuple(p))) for p in e.params)
            else:
                out.append((e.sql, repr(tuple(e.params))))
    return sorted(out)


def stmts(events):
    return [(e.sql, repr(e.params)) for e in events]


def run_twin(sa, orm, R, zoo, engine, spy, hist, rd, mode):
    """mode: 'autoflush' | 'explicit' | 'control:<which>'.  Returns a dict."""
    out = {"mode": mode}
    kw = {}
    control = None
    if mode.startswith("control:"):
        control = mode.split(":", 1)[1]
        if control == "session_flag":
            kw["autoflush"] = False
    s = orm.Session(engine, **kw)
    # the identity map is weak-referencing: whether a later get() / many-to-one lazy load
    # is served from it (no SQL, no autoflush) would depend on garbage collection.  Keep
    # every loaded instance alive so that twins behave identically.
    keep = []
    sa.event.listen(s, "loaded_as_persistent", lambda sess, inst: keep.append(inst))
    sa.event.listen(s, "pending_to_persistent", lambda sess, inst: keep.append(inst))
    try:
        handle = None
        if rd["kind"] == "deferred":
            try:
                handle = start_deferred(sa, orm, R, zoo, s, rd)
            except sa.exc.InvalidRequestError:
                out["skip"] = "deferred-lead-rejected"   # e.g. yield_per + mapper-level joined collection
                return out
        outcomes, objs = apply_history(zoo, s, hist)
        objs["__deferred__"] = handle
        out["history_outcomes"] = outcomes
        if any(o.startswith("abort:") for o in outcomes):
            out["skip"] = "history-flush-error"
            return out
        if rd["kind"] == "lazy":
            # a lazy load needs a persistent object with the attribute unloaded: the owner
            # is fetched and the attribute expired the same way in every twin (fetching may
            # autoflush in all of them alike: then the case is trivial and counted as such)
            k = (rd["cls"], rd["pk"])
            try:
                if k not in objs or objs[k] is None:
                    objs[k] = s.get(zoo.cls[rd["cls"]], rd["pk"])
            except sa.exc.SQLAlchemyError:
                out["skip"] = "history-flush-error"
                return out
            if objs[k] is None or not sa.inspect(objs[k]).persistent or objs[k] in s.deleted:
                out["skip"] = "lazy-owner-missing"
                return out
            if rd["rel"] in objs[k].__dict__:
                if sa.inspect(objs[k]).attrs[rd["rel"]].history.has_changes():
                    # expiring an attribute that carries a pending change would throw half
                    # of a bidirectional change away (C46's subject, not autoflush)
                    out["skip"] = "lazy-attr-has-pending-change"
                    return out
                with s.no_autoflush:
                    s.expire(objs[k], [rd["rel"]])
        if rd["kind"] in ("get", "get_one"):
            # the property speaks of an *absent* identity: a key already in the identity
            # map (incl. an object marked deleted but not flushed) is served without SQL
            # and without autoflush, by design
            key = orm.util.identity_key(zoo.cls[rd["cls"]], rd["pk"])
            if key in s.identity_map:
                out["skip"] = "get-of-present-identity"
                return out
        out["pending"] = bool(s.new or s.dirty or s.deleted)
        deferred_known = deferred_pre = None
        if rd["kind"] == "deferred":
            # the collections under test are built by the post-load SELECTs only for
            # instances that have the attribute unloaded.  Same rule as for lazy loads: it is
            # unloaded at the moment of the fetch in *both* twins - on every lead-class
            # instance already in the session that holds it loaded and unmodified (both
            # twins, now), and on those the explicit flush's own cascade loads bring in or
            # populate (twin B, after its flush)
            Kd = zoo.cls[rd["cls"]]
            inst = [o for o in list(s.identity_map.values()) if isinstance(o, Kd)]
            deferred_known = {id(o) for o in inst}
            deferred_pre = [o for o in inst if rd["rel"] in o.__dict__
                            and not sa.inspect(o).attrs[rd["rel"]].history.has_changes()]
            with s.no_autoflush:
                for o in deferred_pre:
                    s.expire(o, [rd["rel"]])
        m0 = spy.mark()
        if mode == "explicit":
            try:
                s.flush()
            except Exception as e:
                out["error"] = type(e).__name__
                out["error_phase"] = "flush"
                return out
        out["flush_log"] = stmts(spy.since(m0, kinds=("execute", "executemany")))
        out["flush_dml"] = flat_dml(spy.since(m0, kinds=("execute", "executemany")))
        if mode == "explicit" and rd["kind"] == "deferred":
            Kd = zoo.cls[rd["cls"]]
            pre_ids = {id(o) for o in deferred_pre}
            with s.no_autoflush:
                for o in list(s.identity_map.values()):
                    if (isinstance(o, Kd) and rd["rel"] in o.__dict__ and sa.inspect(o).persistent
                            and (id(o) in pre_ids or id(o) not in deferred_known)):
                        out["reexpired_after_flush"] = True
                        s.expire(o, [rd["rel"]])
        if mode == "explicit" and rd["kind"] == "lazy":
            # "the same read" must be a lazy load in both twins: the explicit flush may
            # itself have loaded the attribute as a side effect (its cascade loads run
            # mapper-level eager loaders, e.g. delete T -> load T.owners -> A.tags joined),
            # *before* its DELETEs - the read would then be served from memory with the
            # documented stale-collection semantics and emit nothing.  The attribute is
            # unloaded again, as it was when twin A started its read.
            o = objs[(rd["cls"], rd["pk"])]
            if rd["rel"] in o.__dict__ and sa.inspect(o).persistent:
                out["reexpired_after_flush"] = True
                with s.no_autoflush:
                    s.expire(o, [rd["rel"]])
        m1 = spy.mark()
        try:
            if control == "no_autoflush_block":
                with s.no_autoflush:
                    out["result"] = do_read(sa, orm, R, zoo, s, rd, objs)
            elif control == "exec_option" and rd["kind"] != "lazy":
                out["result"] = do_read(sa, orm, R, zoo, s, rd, objs, control="exec_option")
            elif control == "exec_option":
                with s.no_autoflush:
                    out["result"] = do_read(sa, orm, R, zoo, s, rd, objs)
            else:
                out["result"] = do_read(sa, orm, R, zoo, s, rd, objs)
        except Exception as e:
            out["error"] = type(e).__name__
            out["error_msg"] = str(e)[:300]
            out["error_phase"] = "read"
        out["left_pending"] = sorted([R.ident(o) for o in s.deleted] + ["new:" + type(o).__name__ for o in s.new])
        out["read_log"] = stmts(spy.since(m1, kinds=("execute", "executemany")))
        out["read_dml"] = flat_dml(spy.since(m1, kinds=("execute", "executemany")))
        try:
            presence = {}
            conn = s.connection()
            for (c, pk) in expected_row_presence(hist, outcomes):
                presence[f"{c}:{pk}"] = conn.exec_driver_sql(
                    f"SELECT count(*) FROM {TABLE[c]} WHERE id = {int(pk)}").scalar() > 0
            out["row_presence"] = presence
        except Exception:
            out["row_presence"] = None
        if "result" in out:
            out["result"] = canon(R, zoo, out["result"])
    finally:
        s.rollback()
        s.close()
    return out


def run(ctx):
    import random
    import warnings

    import sqlalchemy as sa
    from sqlalchemy import orm

    from vf.gen import ormrig_gl as R
    from vf.mon.dbapi_spy import Spy

    rng = ctx.rng
    n_zoo = ctx.pick({"quick": 3, "thorough": 10})
    n_case = ctx.pick({"quick": 60, "thorough": 400})
    for zi in range(n_zoo):
        if not ctx.budget_ok():
            break
        zoo = R.build_zoo(rng)
        paths = [ctx.tmppath(".db") for _ in range(3)]
        spies = [Spy() for _ in range(3)]
        pop_seed = rng.randrange(1 << 30)
        seed_engine = sa.create_engine(f"sqlite:///{paths[0]}")
        pop = R.populate(zoo, random.Random(pop_seed), seed_engine, scale=1)
        seed_engine.dispose()
        shutil.copyfile(paths[0], paths[1])
        shutil.copyfile(paths[0], paths[2])
        engines = [sp.engine(p) for sp, p in zip(spies, paths)]
        origin = {"knobs": zoo.knobs, "pop_seed": pop_seed}
        try:
            for ci in range(n_case):
                if not ctx.budget_ok():
                    break
                hist = gen_history(rng, zoo, pop)
                rd = gen_read(rng, zoo, pop, hist)
                if rd["kind"] == "deferred":
                    # the lead rows are fetched from an open cursor while the gap's changes are
                    # flushed: what such a cursor shows of rows written meanwhile is SQLite's
                    # business, so the gap does not write the lead table itself
                    hist = [op for op in hist if not touches_table(op, rd["cls"])]
                    # ... nor deletes a row of the collection's target class: the flush of such
                    # a delete loads the reverse side, may populate the very collection under
                    # test before its DELETE (documented: a collection loaded in the same flush
                    # keeps the deleted member), and a post-load loader does not overwrite a
                    # loaded attribute - membership would depend on where the flush happens
                    tfam = fam(zoo.rel(rd["cls"], rd["rel"]).target)
                    hist = [op for op in hist if not (op["op"] in ("delete", "readd") and fam(op["cls"]) == tfam)]
                if ci % 3 == 0:
                    ctl = ["no_autoflush_block", "exec_option", "session_flag"][(ci // 3) % 3]
                else:
                    ctl = None
                with warnings.catch_warnings():
                    warnings.simplefilter("ignore")
                    one_case(ctx, sa, orm, R, zoo, engines, spies, hist, rd, ctl, origin)
        finally:
            for e in engines:
                e.dispose()
            zoo.dispose()


def one_case(ctx, sa, orm, R, zoo, engines, spies, hist, rd, ctl, origin):
    a = run_twin(sa, orm, R, zoo, engines[0], spies[0], hist, rd, "autoflush")
    b = run_twin(sa, orm, R, zoo, engines[1], spies[1], hist, rd, "explicit")
    witness = dict(origin, history=hist, read=rd)
    if "skip" in a or "skip" in b:
        ctx.count("skipped_" + (a.get("skip") or b.get("skip")))
        return
    if a["history_outcomes"] != b["history_outcomes"]:
        # the history itself (which may autoflush while loading) behaved differently
        ctx.violation("history-outcomes-differ", f"{a['history_outcomes']} vs {b['history_outcomes']}", witness)
        return
    if rd["kind"] == "core_dml_rowcount":
        # the read is itself one (no-op) UPDATE: not part of the flush being compared
        t, col = TABLE[rd["cls"]], SETTABLE[rd["cls"]][0][0]
        own = f"SET {col}={t}.{col}"
        for tw in (a, b):
            for k in ("read_dml", "flush_dml"):
                if tw.get(k):
                    tw[k] = [x for x in tw[k] if own not in x[0]]
    dml_b = b.get("flush_dml", [])
    nontrivial = bool(dml_b)
    if rd["kind"].startswith("core_") or rd["kind"] in ("orm_scalar", "get_one"):
        ctx.count("entrypoint_ops")
        if rd["kind"].startswith("core_scalar"):
            ctx.count("core_scalar_ops")
    if rd["kind"] == "deferred":
        ctx.count("deferred_fetch_ops")
    ctx.case({"h": hist, "r": rd}, nontrivial=nontrivial)
    ctx.seen("read_kinds", rd["kind"])
    if rd["kind"] == "get":
        ctx.count("get_ops")
    elif rd["kind"] == "lazy":
        ctx.count("lazy_ops")
        if rd.get("viewonly"):
            ctx.count("viewonly_lazy_ops")
    elif rd["kind"].startswith("legacy"):
        ctx.count("legacy_ops")
    kind = rd["kind"] + ("-viewonly" if rd.get("viewonly") else "")
    if b.get("error_phase") == "flush":
        # the pending state cannot be flushed: the autoflush twin must fail too
        ctx.count("flush_fails_in_reference")
        if "error" not in a and any(is_select(x[0]) for x in a.get("read_log", [])):
            ctx.violation(f"autoflush-skipped-failing-flush:{kind}",
                          f"explicit flush raised {b['error']} but the autoflush twin returned {a.get('result')!r}",
                          dict(witness, twin_a=a, twin_b=b))
        return
    if rd["kind"] in ("lazy", "deferred") and "error" not in a and not any(is_select(x[0]) for x in a.get("read_log", [])):
        # a many-to-one served from the identity map: no statement, hence no autoflush is
        # due (and the foreign key attribute it is keyed on is only synchronised by a
        # flush) - outside the property, which speaks of loads that query the database
        ctx.count("reads_without_sql")
        return
    if "error" not in b and (b.get("read_dml") or b.get("left_pending")):
        # the explicit flush() did not flush everything: the read's own autoflush found
        # more work.  The reference twin is not a reference then; classify the cause.
        mech = classify_incomplete_flush(hist)
        ctx.violation(mech,
                      f"after an explicit flush() the read autoflushed again and emitted {b['read_dml'][:3]}; "
                      f"with a single autoflush the read returned {str(a.get('result'))[:160]} "
                      f"(twice-flushed twin: {str(b.get('result'))[:160]}), left pending: {a.get('left_pending')}",
                      dict(witness, twin_a=a, twin_b=b))
        return
    if "error" not in a and a.get("left_pending") and any(is_select(x[0]) for x in a["read_log"]):
        ctx.violation(classify_incomplete_flush(hist),
                      f"after the autoflushing read the session still holds pending state {a['left_pending']}",
                      dict(witness, twin_a=a, twin_b=b))
        return
    if ("error" in a) != ("error" in b) or a.get("error") != b.get("error"):
        ctx.violation(f"error-differs:{kind}",
                      f"autoflush twin: {a.get('error')} {a.get('error_msg', '')[:150]} / explicit-flush twin: {b.get('error')}",
                      dict(witness, twin_a=a, twin_b=b))
        return
    exp_presence = {f"{c}:{pk}": v for (c, pk), v in expected_row_presence(hist, b["history_outcomes"]).items()}
    if exp_presence and "error" not in b:
        ctx.count("readd_or_delete_rows_checked", len(exp_presence))
        if any(op["op"] == "readd" for op in hist):
            ctx.count("readd_histories")
        twins = [("explicit-flush", b)]
        if "error" not in a and any(is_select(x[0]) for x in a.get("read_log", [])):
            twins.append(("autoflush", a))
        for tname, t in twins:
            got = t.get("row_presence")
            if got is not None and got != exp_presence:
                wrong = sorted(k for k in exp_presence if got.get(k) != exp_presence[k])
                kinds = sorted({"readd-row-deleted" if exp_presence[k] else "deleted-row-still-present" for k in wrong})
                ctx.violation(f"pending-delete-model-differs:{'+'.join(kinds)}",
                              f"after the {tname} twin flushed, rows {wrong} are "
                              f"{[got.get(k) for k in wrong]} (present?) but delete/re-add history says {[exp_presence[k] for k in wrong]}",
                              dict(witness, twin_a=a, twin_b=b))
                return
    if b.get("reexpired_after_flush"):
        ctx.count("lazy_attr_loaded_by_flush_reexpired")
    ctx.count("cases_compared")
    if "error" in a:
        ctx.count("both_raised")
        return
    if a["result"] != b["result"]:
        ctx.violation(f"result-differs:{kind}",
                      f"autoflush twin returned {str(a['result'])[:200]} but after an explicit flush the same read "
                      f"returns {str(b['result'])[:200]}", dict(witness, twin_a=a, twin_b=b))
        return
    # spy: autoflush DML == explicit flush DML, all before the final SELECT
    log_a = a["flush_log"] + a["read_log"]
    if not any(is_select(x[0]) for x in a["read_log"]):
        # the read was served from the identity map (many-to-one lazy load / get of a
        # loaded identity): no SQL, hence no autoflush is due; only results are compared
        ctx.count("reads_without_sql")
        return
    dml_a = sorted(a["flush_dml"] + a["read_dml"])
    if dml_a != dml_b:
        ctx.violation(f"autoflush-dml-differs:{kind}",
                      f"DML during the autoflushing read {dml_a[:4]} != DML of the explicit flush {dml_b[:4]}",
                      dict(witness, twin_a=a, twin_b=b))
        return
    if dml_b and rd["kind"] == "core_dml_rowcount":
        ctx.count("autoflush_dml_observed")     # (the read is DML itself: no SELECT to order against)
    elif dml_b:
        ctx.count("autoflush_dml_observed")
        idx_dml = max(i for i, x in enumerate(log_a) if is_dml(x[0]))
        sel = [i for i, x in enumerate(log_a) if is_select(x[0])]
        q2 = [x for x in b["read_log"] if is_select(x[0])]
        if q2 and rd["kind"] != "deferred":
            # (a deferred fetch runs several post-load SELECTs whose exact set depends on what
            # the flush's own cascade loads left in the identity map: weaker rule below)
            # the reference twin's read emitted SELECTs: the same statements must close the
            # autoflush twin's log, after every DML statement
            tail = [x[0] for x in log_a[-len(b["read_log"]):]]
            ctx.count("dml_before_select_checked")
            if tail != [x[0] for x in b["read_log"]] or idx_dml >= len(log_a) - len(b["read_log"]):
                ctx.violation(f"select-not-after-autoflush-dml:{kind}",
                              f"autoflush twin log does not end with the read's statements after all DML: "
                              f"{[x[0][:60] for x in log_a]}", dict(witness, twin_a=a, twin_b=b))
                return
        elif sel:
            ctx.count("dml_before_select_checked")
            if idx_dml > sel[-1]:
                ctx.violation(f"select-not-after-autoflush-dml:{kind}",
                              f"a DML statement follows the last SELECT: {[x[0][:60] for x in log_a]}",
                              dict(witness, twin_a=a, twin_b=b))
                return
    if ctl:
        c = run_twin(sa, orm, R, zoo, engines[2], spies[2], hist, rd, "control:" + ctl)
        ctx.count("negative_controls")
        if "skip" not in c and (c.get("result") != b["result"] or "error" in c):
            ctx.count("negative_control_differs")
            ctx.seen("controls_that_differed", ctl)
    if len(ctx.samples) < 3 and nontrivial:
        ctx.sample({"history": hist, "read": rd, "result": a["result"], "autoflush_dml": [x[0][:80] for x in dml_a]})


def expected_row_presence(hist, outcomes):
    """Reference model for delete / re-add: {(cls, pk): row must exist after the flush}
    for persistent objects whose only structural operations were Session.delete() and
    Session.add() (objects that are also attached to a parent in the same history are
    left out: attaching cancels a pending delete by design)."""
    attached = set()
    for op in hist:
        if op["op"] == "set_m2o":
            attached.add((fam(op["cls"]), op["pk"]))
        elif op["op"] in ("append", "remove"):
            attached.add((fam(op["tcls"]), op["target"]))
            attached.add((fam(op["cls"]), op["pk"]))
    last = {}
    for op, out in zip(hist, outcomes):
        if op["op"] in ("delete", "readd") and out == "ok" and op["pk"] < 100:
            last[(fam(op["cls"]), op["pk"])] = op["op"]
    return {k: v == "readd" for k, v in last.items() if k not in attached}


def classify_incomplete_flush(hist):
    """Mechanism when one flush leaves work behind, computed from the history: an object
    that is both marked deleted and attached to a parent (many-to-one set to an object, or
    appended to a collection) in the same unit of work has its delete cancelled by the
    one-to-many dependency processor (register_object(cancel_delete=True))."""
    deleted = {(fam(op["cls"]), op["pk"]) for op in hist if op["op"] == "delete"}
    attached = set()
    for op in hist:
        if op["op"] == "set_m2o" and op["target"] is not None:
            attached.add((fam(op["cls"]), op["pk"]))
        elif op["op"] == "append":
            attached.add((fam(op["tcls"]), op["target"]))
            if op["rel"] in ("tags", "owners"):
                attached.add((fam(op["cls"]), op["pk"]))
    if deleted & attached:
        return "pending-delete-survives-flush:deleted-object-also-attached-to-parent"
    return "flush-leaves-pending-work"


def replay(witness, echo=True):
    """Rebuild the zoo + database of a witness and return (zoo, engine, Session class args)."""
    import os
    import random

    import sqlalchemy as sa

    from vf.gen import ormrig_gl as R

    zoo = R.build_zoo(random.Random(0), knobs=witness["knobs"])
    path = "/dev/shm/gl-replay-c47.db"
    if os.path.exists(path):
        os.unlink(path)
    engine = sa.create_engine(f"sqlite:///{path}")
    R.populate(zoo, random.Random(witness["pop_seed"]), engine, scale=1)
    engine.echo = echo
    return zoo, engine
