"""C48 -- pending changes survive the application dropping its references.

A *program* is a list of plain-data steps over rows named by immutable tags (P.n, C.k):
load, set a scalar, create a parent / a child (via the parent's collection or
``session.add``), re-parent a child, remove a child from its collection, delete, add a
detached object that was modified while detached, merge a transient copy without keeping
the result, begin / roll back a SAVEPOINT, flush.  The interpreter plays the application:
it keeps its object references in one dict ``refs`` and nowhere else; a ``DROP`` step
clears that dict and runs ``gc.collect()``.  Every program is executed with DROP at every
position, at one chosen position, and (control) nowhere.  Steps re-acquire objects the
way an application would: ``session.new``, the identity map, or a query (under
``no_autoflush`` so that the harness itself never flushes the changes away).

The harness keeps the **intended values as plain data** (tag -> name / value / parent
tag), never the objects.  Oracle:

* after every explicit flush (read through the raw DBAPI handle that owns the
  transaction) and after the final commit (independent sqlite3 connection) the tables
  equal the intended rows - a modification, insert, delete or re-parenting whose object
  was unreferenced at flush time must not be missing;
* second clause: after a flush/commit + DROP no object is left in
  ``session.identity_map`` (clean unreferenced persistent objects are released), and in
  the dedicated load rounds the map does not grow across N loads.  Weak references taken
  at DROP time additionally show that dirty objects stayed alive and clean ones died
  (these feed the ``require`` counters).

Operations that touch a modified object's state *without a new change event* are part of
the histories: ``session.expire(obj, [other attrs])``, ``session.refresh(obj, [other
attrs])`` and ORM-enabled ``update()`` with session synchronisation (all under
``no_autoflush``), and the post-flush expiry of a server-generated column (``sv``,
``server_onupdate=FetchedValue()``).  Change events that *raise midway* are part of them
too: sessions are created with ``autobegin=False`` at random and a ``commit_set`` step
commits and then sets an attribute outside any transaction (InvalidRequestError from
inside the change event; the intended model is then left unchanged, the program calls
``begin()`` and goes on), and a ``set`` listener rejects values starting with "bad".
Session event listeners that MODIFY the instance they are given (before_attach, after_attach,
detached_to_persistent, transient_to_pending write an audit ``stamp``) are installed at
random, and an ``attach_clean`` step attaches a detached *unmodified* object: the listener's change must be
flushed although nothing else pins the object.
Additional oracles: after every DROP + gc no state in ``identity_map._modified`` has a
dead object; an AssertionError (or any exception) that only appears with reference drops
is a violation (``exception-only-with-reference-drops``).

Guards: under delete-orphan a pending child is never re-parented (it is expunged when it
leaves the old parent and, with cascade_backrefs=False, not re-added - documented); a
parent that received a new / re-parented child in the program is not deleted; tags of rows deleted in the program are never used again; a child removed from a
collection keeps its row with a NULL parent in the ``plain`` cascade variant and loses it
in the ``orphan`` (``all, delete-orphan``) variant; SAVEPOINT rollback restores the
intended model to its state at ``begin_nested``.  The second clause is asserted only at
points where the session has nothing pending (documented: "After a full flush ... all
objects are again weakly referenced").
"""
from __future__ import annotations

import gc
import weakref

META = {
    "id": "C48",
    "level": "exploration",
    "technique": "application-reference interpreter with del + gc.collect() at every position; DB rows vs intended plain-data model; identity-map size and weakref liveness probes",
    "level_text": "Seeded random programs (4-9 steps) over two cascade variants and autoflush on/off, each run with reference drops + full GC at all positions / one position / none; intended values kept as plain data and compared with the tables after every flush and the final commit; release of clean objects checked after each full flush and in load rounds.",
    "level_note": "CPython reference counting + gc.collect() (gc.freeze() after set-up only speeds collection up). SQLite only. Reference cycles are limited to parent<->child back-references. The second clause is checked as 'released after collection', which is what the session documentation promises, not merely 'may be released'.",
    "design_ref": "DESIGN.md section 4, C48",
    "rule": "case = (program, drop placement, variant); non-trivial = at least one dirty/pending/deleted object lost its last application reference before a flush; distinct by step kinds + placement + variant",
    "shards": {"quick": 8, "thorough": 16},
    "modes": ["cext"],
    "soft_s": {"quick": 50, "thorough": 800},
    "exhaustive": {"quick": False, "thorough": False},
    "require": ["dirty_refs_dropped", "dirty_alive_after_gc", "clean_released", "db_compares", "idmap_empty_checks",
                "detached_modified_added", "pending_dropped", "deleted_dropped",
                "partial_expire_on_dirty", "partial_refresh_on_dirty", "orm_update_sync_on_dirty", "touched_dirty_then_dropped",
                "change_event_raised_no_txn", "change_event_raised_listener", "raised_then_dropped", "modified_set_checks",
                "autobegin_off_programs", "server_generated_expired",
                "listener_modified_instance", "listener_modified_then_dropped", "clean_detached_attached"],
    "assumptions": ["gc.collect() collects every unreachable object (no resurrecting finalizers in the mapped classes)"],
}


class App:
    """The 'application': the only place object references live is ``self.refs``."""

    def __init__(self, ctx, rig, s, variant):
        from sqlalchemy import inspect, select

        self.ctx, self.rig, self.s, self.variant = ctx, rig, s, variant
        self.P, self.C = rig.cls["P"], rig.cls["C"]
        self.inspect, self.select = inspect, select
        self.refs = {}
        # intended model (plain data)
        self.p = {}      # n -> name
        self.note = {}   # n -> note (written by ORM-enabled UPDATE only)
        self.stamp = {}  # n -> stamp (written only by session event listeners that modify the instance they are given)
        self.stamped_dirty = set()
        self.touched = set()   # dirty tags that were partially expired / refreshed / synchronised
        self.raised = set()    # tags whose change event raised midway
        self.raised_ever = set()
        self.c = {}      # k -> [v, parent n | None]
        self.dirty = set()     # tags with unflushed changes / pending / marked deleted
        self.pending = set()
        self.marked_deleted = set()
        self.saved = None
        self.probes = []       # (weakref, was_dirty) taken at DROP time
        self.lost_dirty = 0
        self.fresh = 0

    def uniq(self, t):
        self.fresh += 1
        return f"{t}{self.fresh}"

    # ---- acquiring references the way an application would --------------
    def fetch(self, kind, tag):
        o = self.refs.get((kind, tag))
        if o is not None:
            return o
        cls, attr = (self.P, "n") if kind == "p" else (self.C, "k")
        for x in self.s.new:
            if type(x) is cls and x.__dict__.get(attr) == tag:
                self.refs[(kind, tag)] = x
                return x
        for x in self.s.identity_map.values():
            if type(x) is cls and x.__dict__.get(attr) == tag:
                self.refs[(kind, tag)] = x
                return x
        with self.s.no_autoflush:
            x = self.s.scalars(self.select(cls).where(getattr(cls, attr) == tag)).one()
        self.refs[(kind, tag)] = x
        return x

    # ---- steps ----------------------------------------------------------
    def step(self, st):
        getattr(self, "do_" + st[0])(*st[1:])

    def do_load(self, kind, tag):
        self.fetch(kind, tag)

    def do_set_name(self, n, value):
        self.fetch("p", n).name = value
        self.p[n] = value
        self.dirty.add(("p", n))

    def do_set_v(self, k, value):
        self.fetch("c", k).v = value
        self.c[k][0] = value
        self.dirty.add(("c", k))

    def do_new_p(self, n, name):
        o = self.P()
        o.n, o.name = n, name
        self.s.add(o)
        self.refs[("p", n)] = o
        self.p[n] = name
        self.dirty.add(("p", n))
        self.pending.add(("p", n))

    def do_new_c(self, k, v, parent, how):
        o = self.C()
        o.k, o.v = k, v
        if parent is None:
            self.s.add(o)
        elif how == "append":
            self.fetch("p", parent).children.append(o)
        else:
            self.s.add(o)
            o.parent = self.fetch("p", parent)
        if parent is not None:
            self.dirty.add(("p", parent))
        self.refs[("c", k)] = o
        self.c[k] = [v, parent]
        self.dirty.add(("c", k))
        self.pending.add(("c", k))

    def do_move_c(self, k, parent, how):
        c = self.fetch("c", k)
        if how == "append":
            self.fetch("p", parent).children.append(c)
        else:
            c.parent = self.fetch("p", parent)
        self.c[k][1] = parent
        self.dirty.add(("c", k))

    def do_remove_c(self, k):
        c = self.fetch("c", k)
        parent = self.c[k][1]
        self.fetch("p", parent).children.remove(c)
        self.dirty.add(("c", k))
        self.dirty.add(("p", parent))
        if self.variant == "orphan":
            del self.c[k]
            self.marked_deleted.add(("c", k))
        else:
            self.c[k][1] = None

    def do_delete(self, kind, tag):
        self.s.delete(self.fetch(kind, tag))
        self.dirty.add((kind, tag))
        self.marked_deleted.add((kind, tag))
        if kind == "p":
            del self.p[tag]
            for k, row in list(self.c.items()):
                if row[1] == tag:
                    if self.variant == "orphan":
                        del self.c[k]
                    else:
                        row[1] = None
        else:
            del self.c[tag]

    def do_attach_clean(self, n, how):
        """a detached, *unmodified* P is attached: session.add(), or save-update cascade from a child"""
        s0 = self.rig.orm.Session(self.rig.engine)
        o = s0.scalars(self.select(self.P).where(self.P.n == n)).one()
        s0.close()
        if self.s.identity_map.get(self.inspect(o).key) is not None:
            self.refs[("p", n)] = self.s.identity_map.get(self.inspect(o).key)
            return
        self.ctx.count("clean_detached_attached")
        if how == "add":
            self.s.add(o)
        else:
            self.s.add_all([o])
        self.refs[("p", n)] = o

    def do_detached_mod(self, kind, tag, value):
        """load in another session, close it, modify while detached, add to the session"""
        cls, attr = (self.P, "n") if kind == "p" else (self.C, "k")
        s0 = self.rig.orm.Session(self.rig.engine)
        o = s0.scalars(self.select(cls).where(getattr(cls, attr) == tag)).one()
        s0.close()
        if self.s.identity_map.get(self.inspect(o).key) is not None:
            # the session already holds this row (side effect of an earlier step):
            # modify that instance instead, add() of a twin would be refused
            o = self.s.identity_map.get(self.inspect(o).key)
            twin = True
        else:
            twin = False
            self.ctx.count("detached_modified_added")
        if kind == "p":
            o.name = value
            self.p[tag] = value
        else:
            o.v = value
            self.c[tag][0] = value
        if not twin:
            self.s.add(o)
        self.refs[(kind, tag)] = o
        self.dirty.add((kind, tag))

    def do_merge_p(self, n, value):
        """merge a transient copy carrying the primary key (only the merged instance is kept)"""
        with self.s.no_autoflush:
            pid = self.rig.truth("SELECT id FROM p WHERE n=?", (n,))[0][0]
            src = self.P()
            src.id, src.n, src.name = pid, n, value
            # the merged instance is the application's reference until the next DROP
            self.refs[("p", n)] = self.s.merge(src)
        self.p[n] = value
        self.dirty.add(("p", n))

    # ---- steps that touch the state without a new change event ---------
    def _touch(self, kind, tag, counter):
        if (kind, tag) in self.dirty:
            self.ctx.count(counter)
            self.touched.add((kind, tag))

    def do_expire_attrs(self, kind, tag, attrs):
        self.s.expire(self.fetch(kind, tag), list(attrs))
        self._touch(kind, tag, "partial_expire_on_dirty")

    def do_refresh_attrs(self, kind, tag, attrs):
        o = self.fetch(kind, tag)
        with self.s.no_autoflush:
            self.s.refresh(o, list(attrs))
        self._touch(kind, tag, "partial_refresh_on_dirty")

    def do_orm_update(self, n, value, sync):
        """ORM-enabled UPDATE of ``note`` with session synchronisation, autoflush off"""
        from sqlalchemy import update

        P = self.P
        with self.s.no_autoflush:
            self.s.execute(update(P).where(P.n == n).values(note=value), execution_options={"synchronize_session": sync})
        self.note[n] = value
        if sync:
            self._touch("p", n, "orm_update_sync_on_dirty")

    # ---- change events that raise midway ---------------------------------
    def do_commit_set(self, n, value):
        """commit, then set an attribute while no transaction is in progress"""
        from sqlalchemy import exc

        o = self.fetch("p", n)
        self.s.commit()
        self.after_flush()
        self.compare("commit", self.rig.committed)
        try:
            o.name = value
        except exc.InvalidRequestError:
            if self.s.autobegin:
                raise
            self.ctx.count("change_event_raised_no_txn")
            self.raised.add(("p", n))
            self.raised_ever.add(n)
        else:
            self.p[n] = value
            self.dirty.add(("p", n))
        if not self.s.in_transaction():
            self.s.begin()

    def do_bad_set(self, n):
        o = self.fetch("p", n)
        try:
            o.name = "bad value"
        except ValueError:
            self.ctx.count("change_event_raised_listener")
            self.raised.add(("p", n))
        else:
            raise AssertionError("the rejecting 'set' listener did not fire")

    def do_begin_nested(self):
        self.nested = self.s.begin_nested()      # flushes
        self.after_flush()
        self.saved = ({k: v for k, v in self.p.items()}, {k: list(v) for k, v in self.c.items()}, dict(self.note), dict(self.stamp))

    def do_rollback_nested(self):
        self.nested.rollback()
        self.nested = None
        self.p, self.c, self.note, self.stamp = self.saved
        self.stamped_dirty.clear()
        self.saved = None
        self.touched.clear()
        self.dirty.clear()
        self.pending.clear()
        self.marked_deleted.clear()
        self.refs.clear()   # objects created inside the savepoint are transient again: forget them

    def do_flush(self):
        _STATS["in_flush"] = True
        try:
            self.s.flush()
        finally:
            _STATS["in_flush"] = False
        self.after_flush()
        self.compare("flush", self.rig.truth)

    def after_flush(self):
        self.stamped_dirty.clear()
        self.touched.clear()
        self.dirty.clear()
        self.pending.clear()
        self.marked_deleted.clear()

    def do_DROP(self):
        held = set(self.refs)
        nd = len(held & self.dirty)
        if nd:
            self.ctx.count("dirty_refs_dropped", nd)
            self.lost_dirty += nd
            self.ctx.count("pending_dropped", len(held & self.pending))
            self.ctx.count("deleted_dropped", len(held & self.marked_deleted))
        self.ctx.count("touched_dirty_then_dropped", len(held & self.touched & self.dirty))
        self.ctx.count("raised_then_dropped", len(held & self.raised))
        self.ctx.count("listener_modified_then_dropped", len(held & self.stamped_dirty & self.dirty))
        self.raised -= held
        for key in self.refs:
            self.probes.append((weakref.ref(self.refs[key]), key in self.dirty))
        self.refs.clear()
        gc.collect()
        self.modified_set_alive("DROP")
        for wr, was_dirty in self.probes:
            alive = wr() is not None
            if was_dirty and alive:
                self.ctx.count("dirty_alive_after_gc")
            elif not was_dirty and not alive:
                self.ctx.count("clean_released")
        del self.probes[:]
        if not self.dirty and not self.s.new and not self.s.dirty and not self.s.deleted:
            self.idmap_empty("DROP after full flush")

    # ---- oracles ----------------------------------------------------------
    def modified_set_alive(self, where):
        """every state the session tracks as modified still has its object (the strong reference
        that accompanies an entry of identity_map._modified)"""
        self.ctx.count("modified_set_checks")
        dead = [st for st in list(self.s.identity_map._modified) if st.obj() is None]
        if dead:
            self.ctx.violation("dead-object-in-modified-set",
                               f"{len(dead)} state(s) in identity_map._modified whose object was garbage collected after {where}",
                               {"program": self.program, "placement": self.placement, "variant": self.variant,
                                "autoflush": self.s.autoflush, "autobegin": self.s.autobegin})

    def idmap_empty(self, where):
        self.ctx.count("idmap_empty_checks")
        n = len(self.s.identity_map)
        if n:
            kinds = sorted({type(o).__name__ for o in self.s.identity_map.values()})
            self.ctx.violation("clean-unreferenced-objects-not-released",
                               f"{n} object(s) of {kinds} still in identity_map after {where} + gc.collect()",
                               {"program": self.program, "placement": self.placement, "variant": self.variant,
                                "autoflush": self.s.autoflush})

    def compare(self, where, reader):
        self.ctx.count("db_compares")
        got_p = {n: name for n, name in reader("SELECT n, name FROM p")}
        got_c = {k: [v, pn] for k, v, pn in reader(
            "SELECT c.k, c.v, p.n FROM c LEFT JOIN p ON p.id = c.p_id")}
        got_stamp = {n: st for n, st in reader("SELECT n, stamp FROM p") if st is not None}
        want_stamp = {n: v for n, v in self.stamp.items() if n in self.p}
        got_note = {n: note for n, note in reader("SELECT n, note FROM p") if note is not None}
        want_note = {n: v for n, v in self.note.items() if n in self.p}
        if got_p == self.p and got_c == self.c and got_note == want_note and got_stamp == want_stamp:
            return True
        probs = []
        for n in set(got_stamp) | set(want_stamp):
            if got_stamp.get(n) != want_stamp.get(n):
                probs.append(("p-listener-change", f"P n={n}: stamp db {got_stamp.get(n)!r} intended {want_stamp.get(n)!r} (set by an event listener)"))
        for n in set(got_note) | set(want_note):
            if got_note.get(n) != want_note.get(n):
                probs.append(("p-note", f"P n={n}: note db {got_note.get(n)!r} intended {want_note.get(n)!r}"))
        for n in set(got_p) | set(self.p):
            if got_p.get(n, "<no row>") != self.p.get(n, "<no row>"):
                kind = "insert" if n not in got_p else "delete" if n not in self.p else "update"
                probs.append((f"p-{kind}", f"P n={n}: db {got_p.get(n, '<no row>')!r} intended {self.p.get(n, '<no row>')!r}"))
        for k in set(got_c) | set(self.c):
            g, w = got_c.get(k), self.c.get(k)
            if g != w:
                if g is None:
                    kind = "insert"
                elif w is None:
                    kind = "delete"
                elif g[0] != w[0]:
                    kind = "update"
                else:
                    kind = "reparent"
                probs.append((f"c-{kind}", f"C k={k}: db {g!r} intended {w!r}"))
        kinds = sorted({k for k, _ in probs})
        wrong_p = {n for n in set(got_p) | set(self.p) if got_p.get(n, "<no row>") != self.p.get(n, "<no row>")}
        if kinds == ["p-update"] and wrong_p <= self.raised_ever:
            # the only rows that differ are rows whose attribute set *raised* (no transaction, autobegin
            # disabled): the failed change event left residue (committed_state entry, modified flag)
            # that the next flush turned into an UPDATE
            mech = "raised-change-event-still-flushed"
        else:
            mech = "change-missing-at-" + where + ":" + "+".join(kinds)
        self.ctx.violation(mech,
                           "; ".join(m for _, m in probs[:4]),
                           {"program": self.program, "placement": self.placement, "variant": self.variant,
                            "autoflush": self.s.autoflush, "db_p": got_p, "db_c": got_c,
                            "intended_p": self.p, "intended_c": self.c})
        return False


_STATS = {"in_flush": False, "sv_expired_in_flush": 0}


def zoo_pc_ext(sa, orm, reg, cascade):
    """zoo_pc plus: P.note (written by ORM-enabled UPDATE only), P.sv (server-generated on UPDATE: expired
    by the post-flush fetch logic), and a 'set' listener on P.name that rejects values starting with "bad"."""
    from vf.gen import ormrig_gj as R

    cls = R.zoo_pc(sa, orm, reg, cascade=cascade)
    P = cls["P"]
    stamp = sa.Column("stamp", sa.String)
    P.__table__.append_column(stamp)
    P.__mapper__.add_property("stamp", stamp)
    note = sa.Column("note", sa.String)
    sv = sa.Column("sv", sa.Integer, server_default="0", server_onupdate=sa.FetchedValue())
    P.__table__.append_column(note)
    P.__table__.append_column(sv)
    P.__mapper__.add_property("note", note)
    P.__mapper__.add_property("sv", sv)

    def reject_bad(target, value, oldvalue, initiator):
        if isinstance(value, str) and value.startswith("bad"):
            raise ValueError("rejected by the 'set' listener")

    sa.event.listen(P.name, "set", reject_bad)

    def on_expire(target, attrs):
        if attrs and "sv" in attrs and _STATS["in_flush"]:
            _STATS["sv_expired_in_flush"] += 1

    sa.event.listen(P, "expire", on_expire)
    return cls


def seed(rig):
    con = rig.obs
    con.execute("INSERT INTO p (id, name, n) VALUES (1,'p1',1),(2,'p2',2),(3,'p3',3)")
    con.execute("INSERT INTO c (id, p_id, v, k) VALUES (1,1,'c1','k1'),(2,1,'c2','k2'),(3,2,'c3','k3'),(4,NULL,'c4','k4')")
    return {1: "p1", 2: "p2", 3: "p3"}, {"k1": ["c1", 1], "k2": ["c2", 1], "k3": ["c3", 2], "k4": ["c4", None]}


def gen_program(rng, length, variant):
    """Random program over the seeded rows, generated against a tiny plain-data model so
    that every step is applicable (tags of deleted rows are not reused)."""
    p = {1, 2, 3}
    c = {"k1": 1, "k2": 1, "k3": 2, "k4": None}
    prog = []
    fresh = [0]
    nested = 0     # 0 none, 1 open, 2 done
    in_nested_new = []

    def u(t):
        fresh[0] += 1
        return f"{t}{fresh[0]}"

    tries = 0
    while len(prog) < length and tries < 200:
        tries += 1
        kind = rng.choice(["load", "set_name", "set_name", "set_v", "set_v", "new_p", "new_c", "new_c", "move_c",
                           "remove_c", "delete", "detached_mod", "merge_p", "flush", "begin_nested", "rollback_nested",
                           "expire_attrs", "refresh_attrs", "orm_update", "commit_set", "bad_set", "touch_last", "attach_clean", "attach_clean"])
        # rows that were persistent when the program started and are still there
        live_p = [n for n in (1, 2, 3) if n in p]
        live_c = [k for k in ("k1", "k2", "k3", "k4") if k in c]
        if kind == "load":
            if rng.random() < 0.5 and p:
                prog.append(("load", "p", rng.choice(sorted(p))))
            elif c:
                prog.append(("load", "c", rng.choice(sorted(c))))
        elif kind == "set_name" and p:
            prog.append(("set_name", rng.choice(sorted(p)), u("name")))
        elif kind == "set_v" and c:
            prog.append(("set_v", rng.choice(sorted(c)), u("v")))
        elif kind == "new_p":
            n = 100 + fresh[0]
            fresh[0] += 1
            p.add(n)
            prog.append(("new_p", n, u("name")))
        elif kind == "new_c":
            k = u("nk")
            parent = rng.choice(sorted(p) + [None]) if p else None
            c[k] = parent
            prog.append(("new_c", k, u("v"), parent, rng.choice(["append", "m2o"])))
        elif kind == "move_c" and c and p:
            # a child is re-linked at most once per program: moving it away while neither
            # its ``parent`` nor the old parent's collection is loaded leaves that
            # collection stale by design (it would list the child twice after a move back)
            relinked_k = {s[1] for s in prog if s[0] in ("move_c", "remove_c")}
            pool = [k for k in sorted(c) if k not in relinked_k]
            if not pool:
                continue
            k = rng.choice(pool)
            cand = [x for x in sorted(p) if x != c[k]]
            if variant == "orphan" and k.startswith("nk"):
                # a *pending* child that leaves its parent under delete-orphan is expunged
                # at once and (cascade_backrefs=False) not re-added by the new parent:
                # documented 2.0 behaviour, not a lost change
                cand = []
            if cand:
                c[k] = rng.choice(cand)
                prog.append(("move_c", k, c[k], rng.choice(["append", "m2o"])))
        elif kind == "remove_c":
            relinked_k = {s[1] for s in prog if s[0] in ("move_c", "remove_c")}
            cand = [k for k in sorted(c) if c[k] is not None and k not in relinked_k]
            if cand:
                k = rng.choice(cand)
                prog.append(("remove_c", k))
                c[k] = None
                c.pop(k)    # (orphan variant deletes the row: never touch the tag again in either variant)
        elif kind == "delete":
            # only rows that were persistent when the program started; a parent that got a
            # new / re-parented child in this program is not deleted (what happens to a
            # *pending* child of a deleted parent is outside this property)
            # ... and neither is any parent once the program re-parents at all: deleting
            # the *old* parent of a moved child cascades by what the database still says.
            # A child that was put into a collection is not deleted either: adding to a
            # collection cancels a pending delete (unitofwork cancel_delete) by design.
            relinked = any(s[0] in ("new_c", "move_c", "remove_c") for s in prog)
            pc = [n for n in sorted(p) if n in (1, 2, 3) and not relinked]
            moved = {s[1] for s in prog if s[0] in ("move_c", "remove_c")}
            cc = [k for k in sorted(c) if k in ("k1", "k2", "k3", "k4") and k not in moved]
            if rng.random() < 0.4 and len(p) > 1 and pc:
                n = rng.choice(pc)
                p.discard(n)
                for k in [k for k in c if c[k] == n]:
                    c.pop(k)   # orphan variant deletes them; leave them alone in both variants
                prog.append(("delete", "p", n))
            elif cc:
                k = rng.choice(cc)
                c.pop(k)
                prog.append(("delete", "c", k))
        elif kind == "detached_mod" and nested != 1:
            # only rows that exist committed and are untouched so far in this program
            touched = {s[1] for s in prog if s[0] in ("set_name", "new_p", "merge_p", "orm_update", "commit_set", "bad_set", "attach_clean")} | \
                      {s[2] for s in prog if s[0] in ("expire_attrs", "refresh_attrs")} | \
                      {s[2] for s in prog if s[0] in ("load", "delete", "detached_mod")} | \
                      {s[2] for s in prog if s[0] == "move_c"} | {s[3] for s in prog if s[0] == "new_c"}
            cand = [n for n in (1, 2, 3) if n in p and n not in touched]
            if cand:
                prog.append(("detached_mod", "p", rng.choice(cand), u("dname")))
        elif kind == "attach_clean" and nested != 1:
            touched = {s[1] for s in prog if s[0] in ("set_name", "new_p", "merge_p", "orm_update", "commit_set", "bad_set", "attach_clean")} | \
                      {s[2] for s in prog if s[0] in ("load", "delete", "detached_mod", "expire_attrs", "refresh_attrs")} | \
                      {s[2] for s in prog if s[0] == "move_c"} | {s[3] for s in prog if s[0] == "new_c"}
            cand = [n for n in (1, 2, 3) if n in p and n not in touched]
            if cand:
                prog.append(("attach_clean", rng.choice(cand), rng.choice(["add", "add_all"])))
        elif kind == "merge_p":
            cand = [n for n in (1, 2, 3) if n in p]
            if cand:
                prog.append(("merge_p", rng.choice(cand), u("mname")))
        elif kind in ("expire_attrs", "refresh_attrs") and (live_p or live_c):
            # only attributes the program never sets through the object (expiring a modified attribute
            # discards that change by design)
            if live_p and (rng.random() < 0.7 or not live_c):
                attrs = rng.sample(["n", "note", "sv"], rng.randint(1, 3))
                prog.append((kind, "p", rng.choice(live_p), attrs))
            else:
                prog.append((kind, "c", rng.choice(live_c), ["k"]))
        elif kind == "orm_update" and live_p:
            prog.append(("orm_update", rng.choice(live_p), u("note"), rng.choice(["evaluate", "fetch", "evaluate", False])))
        elif kind == "touch_last":
            # the operation right after a modification of the same persistent object
            last = prog[-1] if prog else None
            if last and last[0] == "set_name" and last[1] in live_p:
                how = rng.choice(["expire_attrs", "refresh_attrs", "orm_update"])
                if how == "orm_update":
                    prog.append(("orm_update", last[1], u("note"), rng.choice(["evaluate", "fetch"])))
                else:
                    prog.append((how, "p", last[1], rng.sample(["n", "note", "sv"], rng.randint(1, 2))))
            elif last and last[0] == "set_v" and last[1] in live_c:
                prog.append((rng.choice(["expire_attrs", "refresh_attrs"]), "c", last[1], ["k"]))
        elif kind == "commit_set" and nested == 0 and live_p and not any(s[0] == "commit_set" for s in prog):
            nested = 2     # no SAVEPOINT in a program that commits in the middle
            prog.append(("commit_set", rng.choice(live_p), u("name")))
        elif kind == "bad_set" and live_p:
            prog.append(("bad_set", rng.choice(live_p)))
        elif kind == "flush":
            prog.append(("flush",))
        elif kind == "begin_nested" and nested == 0 and len(prog) < length - 2:
            nested = 1
            snap = (set(p), dict(c))
            prog.append(("begin_nested",))
        elif kind == "rollback_nested" and nested == 1:
            nested = 2
            p, c = snap[0], snap[1]
            prog.append(("rollback_nested",))
    return prog


def placements(prog, rng):
    n = len(prog)
    yield "none", set()     # control first: a program that fails here is a harness bug
    yield "all", set(range(n))
    yield "one", {rng.randrange(n)}
    yield "some", {i for i in range(n) if rng.random() < 0.4}


# (loaded_as_persistent is left out: it fires inside the load, before the loaded state is committed, so a value
# assigned there becomes part of the *loaded* state by design - like InstanceEvents.load)
LISTENER_EVENTS = ["before_attach", "after_attach", "detached_to_persistent", "transient_to_pending"]


def install_listeners(app, s, events):
    """session event listeners that MODIFY the instance they are given (an audit stamp).  The listener is part of
    the application: it records the value it assigned in the intended model.  (pending_to_persistent fires inside
    the flush: its changes belong to the following flush and are left out; persistent_to_detached hands the
    object to another session - see selftest/C48/proposed/.)"""
    import sqlalchemy as sa

    P = app.P
    for ev in events:
        val = "by-" + ev

        def fn(session, instance, val=val):
            if type(instance) is not P:
                return
            n = instance.__dict__.get("n")
            if n is None or instance.__dict__.get("stamp") == val:
                return
            instance.stamp = val
            app.stamp[n] = val
            app.dirty.add(("p", n))
            app.stamped_dirty.add(("p", n))
            app.ctx.count("listener_modified_instance")

        sa.event.listen(s, ev, fn)


def run_program(ctx, rig, prog, placement, where, variant, autoflush, expire_on_commit, autobegin=True, listeners=()):
    rig.wipe()
    s = rig.session(autoflush=autoflush, expire_on_commit=expire_on_commit, autobegin=autobegin)
    if not autobegin:
        s.begin()
        if placement == "none":
            ctx.count("autobegin_off_programs")
    app = App(ctx, rig, s, variant)
    app.p, app.c = seed(rig)
    app.program, app.placement = [list(x) for x in prog] + [["listeners"] + list(listeners)], placement
    if listeners:
        install_listeners(app, s, listeners)
    try:
        try:
            for i, st in enumerate(prog):
                app.step(st)
                if i in where:
                    app.do_DROP()
            if "begin_nested" in [x[0] for x in prog] and getattr(app, "nested", None) is not None:
                app.nested = None   # savepoint left open: commit() releases it
            if where:
                app.do_DROP()
            s.commit()
        except Exception as e:
            if placement == "none":
                raise
            # the same program ran cleanly without reference drops (control placement):
            # the drop + collection is what made the library fail
            import traceback

            tb = traceback.extract_tb(e.__traceback__)
            site = next((f"{f.name}" for f in reversed(tb) if "/sqlalchemy/" in f.filename), "?")
            ctx.violation(f"exception-only-with-reference-drops:{type(e).__name__}",
                          f"{type(e).__name__}: {str(e)[:160]} (in {site}); the control run without drops succeeded",
                          {"program": app.program, "placement": placement, "variant": variant, "autoflush": autoflush, "autobegin": autobegin})
            try:
                s.rollback()
            except Exception:
                pass
            ctx.case({"kinds": [x[0] for x in prog], "placement": placement, "variant": variant, "af": autoflush},
                     nontrivial=app.lost_dirty > 0)
            return app
        app.after_flush()
        ok = app.compare("commit", rig.committed)
        app.refs.clear()
        gc.collect()
        app.idmap_empty("commit")
    finally:
        s.close()
        rig.sessions.remove(s)
    ctx.case({"kinds": [x[0] for x in prog], "placement": placement, "variant": variant, "af": autoflush},
             nontrivial=app.lost_dirty > 0)
    return app


def load_rounds(ctx, rig, rounds, variant):
    """Second clause on its own: N loads of clean objects with dropped references never
    accumulate in the identity map (relationships loaded both ways -> reference cycles)."""
    from sqlalchemy import select

    rig.wipe()
    seed(rig)
    P, C = rig.cls["P"], rig.cls["C"]
    s = rig.session()
    try:
        peak = 0
        for r in range(rounds):
            objs = s.scalars(select(P)).all()
            for p in objs:
                for c in p.children:
                    c.parent
            if r % 3 == 1:
                objs[0].name = f"round{r}"
                s.flush()          # dirty -> clean again within the transaction
            if r % 5 == 4:
                s.commit()
            n_loaded = len(s.identity_map)
            del objs, p
            try:
                del c
            except NameError:
                pass
            gc.collect()
            left = len(s.identity_map)
            peak = max(peak, left)
            ctx.count("idmap_empty_checks")
            ctx.count("clean_released", n_loaded - left)
            if left:
                ctx.violation("clean-unreferenced-objects-not-released",
                              f"round {r}: {left} of {n_loaded} loaded objects still in identity_map after del + gc.collect()",
                              {"round": r, "variant": variant, "left": left})
                break
        ctx.case({"load_rounds": rounds, "variant": variant}, nontrivial=True)
    finally:
        s.close()
        rig.sessions.remove(s)


def run(ctx):
    import warnings

    from vf.gen import ormrig_gj as R

    warnings.simplefilter("ignore")
    rng = ctx.rng
    nprog = ctx.pick({"quick": 60, "thorough": 450})
    variants = {
        "plain": "save-update, merge",
        "orphan": "all, delete-orphan",
    }
    sampled = 0
    for variant, cascade in variants.items():
        rig = R.Rig(ctx, [lambda sa, orm, reg, cascade=cascade: zoo_pc_ext(sa, orm, reg, cascade)])
        gc.collect()
        gc.freeze()   # only speeds up the many gc.collect() calls below
        try:
            load_rounds(ctx, rig, ctx.pick({"quick": 12, "thorough": 60}), variant)
            for k in range(nprog):
                if not ctx.budget_ok():
                    break
                prog = gen_program(rng, rng.randint(4, 9), variant)
                if not prog:
                    continue
                autoflush = rng.random() < 0.5
                eoc = rng.random() < 0.7
                autobegin = rng.random() < 0.6
                listeners = [ev for ev in LISTENER_EVENTS if rng.random() < 0.25] if rng.random() < 0.6 else []
                for placement, where in placements(prog, rng):
                    app = run_program(ctx, rig, prog, placement, where, variant, autoflush, eoc, autobegin, listeners)
                    if sampled < 3 and app.lost_dirty and placement == "all":
                        ctx.sample({"variant": variant, "program": app.program, "placement": placement})
                        sampled += 1
        finally:
            rig.close()
            gc.unfreeze()
    ctx.count("server_generated_expired", _STATS["sv_expired_in_flush"])
