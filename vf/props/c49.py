"""C49 -- mutable column values propagate in-place changes to the database.

A mapped ``Doc`` carries MutableDict (JSON, PickleType, and an ``associate_with`` type),
MutableList (JSON, PickleType), MutableSet (PickleType) columns and a MutableComposite.
Every mutator method / in-place operator of dict, list and set is applied, in lock-step,
to the live Mutable value of a *persistent, clean* object and to a plain builtin model.
Judged for every operation that changed the model:
  * the parent is in ``session.dirty`` and ``session.is_modified()`` right after the
    mutation (mechanism ``...-not-tracked``);
  * after ``flush()`` the stored value - read with a raw driver-level SELECT and decoded
    with json / pickle - equals the in-memory value, which equals the model
    (``...-not-persisted``);
  * the Mutable value itself behaved like the builtin (contents, exception type).
Round trips interleaved in sequences: commit + reload, expire, refresh, pickle the
parent and re-attach it to a new session, ``merge`` the unpickled parent, replacement by
a plain container (coercion), None and back.  After each round trip the next in-place
mutation must again be tracked and persisted.

In-place operators are applied both to a local reference (``v = doc.attr; v |= x``) and
in attribute form (``doc.attr |= x``).  Single operations start alternately from a value
put on the object by the *refresh* event (commit, then attribute access) and by the
*load* event (row loaded by a new session).

Inheritance: a 4-level single-table and a 4-level joined-table hierarchy (all classes
declared before mapper configuration) with a MutableDict column on the root and a
MutableList column on the second level; an instance of every class receives its value
by construction, load, refresh, expire + reload, unpickle + re-attach and merge
(load=True / False) and is then mutated once (``mutable-column-not-tracked-on-
{declaring-class,direct-subclass,deep-subclass}``).

Mechanisms: ``mutable<kind>-<op>-not-tracked`` when the operation itself loses the change.
In sequences a control experiment (same operation, same value, fresh object, plain
commit + load) decides whether the operation or the preceding history is to blame; in the
latter case the mechanism is ``mutable<kind>-after-<round trip>-not-tracked``.  After a
reported violation the row is re-synchronised with ``flag_modified`` and the sequence
continues.

Guards: mutations of *nested* plain containers are documented as untracked - they are
only used as a negative control (counter ``negative_control_lost``), never judged.
Operations that leave the contents unchanged (``discard`` of an absent element ...) are
not required to flag the parent.  ``expire`` / ``refresh`` are only issued on a flushed
object (they discard pending changes by contract).
"""
from __future__ import annotations

import json
import operator
import pickle

META = {
    "id": "C49",
    "level": "exploration",
    "technique": "lock-step mutation of live Mutable values vs builtin models; dirty-flag monitor after each mutation; raw SELECT + json/pickle decode after each flush; pickle/merge/reload round trips",
    "level_text": "Every dict/list/set mutator and in-place operator (with the argument shapes of the builtin: keys present/absent, indices -4..4, slices, iterables, multiple arguments) on six Mutable column flavours and a MutableComposite, each from sizes 0..3, plus seeded random sequences of mutations interleaved with flush, commit/reload, expire, refresh, pickle+reattach, pickle+merge and coerced replacement.",
    "level_note": "SQLite only (JSON stored as TEXT, PickleType as BLOB). Deep tracking of nested containers is documented as unsupported and not judged. Only scalar/composite Mutable types shipped with the extension are covered, not user subclasses.",
    "design_ref": "DESIGN.md section 4, C49",
    "rule": "case = (column flavour, initial size, op spec) or a sequence; non-trivial = the operation changed the model (so tracking and persistence are both demanded)",
    "shards": {"quick": 8, "thorough": 16},
    "soft_s": {"quick": 60, "thorough": 900},
    "exhaustive": {"quick": True, "thorough": True},
    "require": ["mutations_changed", "dirty_checks", "db_compares", "pickle_roundtrips", "merges", "reloads",
                "composite_mutations", "seq_steps", "via_load", "via_refresh", "hierarchy_mutations"],
    "assumptions": ["json / pickle decoding of the raw column value is the type's own representation on SQLite"],
}

KEYS = ("a", "b", "c", "d", "e")


# --------------------------------------------------------------------------
# operation tables: name -> (function(target, A) -> result, needs)
# --------------------------------------------------------------------------
def dict_ops():
    return {
        "setitem": lambda t, A: t.__setitem__(A["k"], A["v"]),
        "delitem": lambda t, A: t.__delitem__(A["k"]),
        "setdefault1": lambda t, A: t.setdefault(A["k"]),
        "setdefault2": lambda t, A: t.setdefault(A["k"], A["v"]),
        "update_dict": lambda t, A: t.update(dict(A["pairs"])),
        "update_pairs": lambda t, A: t.update(list(A["pairs"])),
        "update_kw": lambda t, A: t.update(**dict(A["pairs"])),
        "update_dict_kw": lambda t, A: t.update(dict(A["pairs"][:1]), **dict(A["pairs"][1:])),
        "update_empty": lambda t, A: t.update(),
        "pop": lambda t, A: t.pop(A["k"]),
        "pop_default": lambda t, A: t.pop(A["k"], "dflt"),
        "popitem": lambda t, A: t.popitem(),
        "clear": lambda t, A: t.clear(),
        "ior_dict": lambda t, A: operator.ior(t, dict(A["pairs"])),
        "ior_pairs": lambda t, A: operator.ior(t, list(A["pairs"])),
    }


def list_ops():
    return {
        "append": lambda t, A: t.append(A["v"]),
        "extend": lambda t, A: t.extend(list(A["seq"])),
        "extend_iter": lambda t, A: t.extend(iter(A["seq"])),
        "iadd": lambda t, A: operator.iadd(t, list(A["seq"])),
        "imul": lambda t, A: operator.imul(t, A["n"]),
        "insert": lambda t, A: t.insert(A["i"], A["v"]),
        "remove": lambda t, A: t.remove(A["v"]),
        "pop": lambda t, A: t.pop(),
        "pop_i": lambda t, A: t.pop(A["i"]),
        "clear": lambda t, A: t.clear(),
        "sort": lambda t, A: t.sort(),
        "sort_rev": lambda t, A: t.sort(reverse=True),
        "reverse": lambda t, A: t.reverse(),
        "setitem": lambda t, A: t.__setitem__(A["i"], A["v"]),
        "setslice": lambda t, A: t.__setitem__(A["s"], list(A["seq"])),
        "delitem": lambda t, A: t.__delitem__(A["i"]),
        "delslice": lambda t, A: t.__delitem__(A["s"]),
    }


def set_ops():
    return {
        "add": lambda t, A: t.add(A["v"]),
        "remove": lambda t, A: t.remove(A["v"]),
        "discard": lambda t, A: t.discard(A["v"]),
        "pop": lambda t, A: t.pop(),
        "clear": lambda t, A: t.clear(),
        "update": lambda t, A: t.update(list(A["seq"])),
        "update2": lambda t, A: t.update(list(A["seq"]), set(A["seq2"])),
        "intersection_update": lambda t, A: t.intersection_update(list(A["seq"])),
        "difference_update": lambda t, A: t.difference_update(list(A["seq"])),
        "symmetric_difference_update": lambda t, A: t.symmetric_difference_update(list(A["seq"])),
        "ior": lambda t, A: operator.ior(t, set(A["seq"])),
        "iand": lambda t, A: operator.iand(t, set(A["seq"])),
        "isub": lambda t, A: operator.isub(t, set(A["seq"])),
        "ixor": lambda t, A: operator.ixor(t, set(A["seq"])),
    }


INPLACE = {"ior_dict", "ior_pairs", "iadd", "imul", "ior", "iand", "isub", "ixor"}
OPS = {}


def ops_for(kind):
    if not OPS:
        OPS.update(dict=dict_ops(), list=list_ops(), set=set_ops())
    return OPS[kind]


def arg_variants(kind, op, cur):
    """deterministic argument shapes for the exhaustive part."""
    out = []
    if kind == "dict":
        present = list(cur)[:1]
        absent = [k for k in KEYS if k not in cur][:1]
        pairsets = [[], [(absent[0], 7)], [(k, 8) for k in present] + [(absent[0], 9)], [(k, cur[k]) for k in present]]
        if op in ("setitem", "setdefault2"):
            for k in present + absent:
                for v in (11, "s", cur.get(k, 0)):
                    out.append({"k": k, "v": v})
        elif op in ("delitem", "setdefault1", "pop", "pop_default"):
            out = [{"k": k} for k in present + absent]
        elif op.startswith("update") or op.startswith("ior"):
            out = [{"pairs": p} for p in pairsets if not (op == "update_dict_kw" and len(p) < 2)]
            if op == "update_empty":
                out = [{}]
        else:
            out = [{}]
    elif kind == "list":
        n = len(cur)
        if op in ("append",):
            out = [{"v": 5}, {"v": "s"}]
        elif op in ("extend", "extend_iter", "iadd"):
            out = [{"seq": []}, {"seq": [5]}, {"seq": [5, 6, "s"]}]
        elif op == "imul":
            out = [{"n": k} for k in (-1, 0, 1, 2, 3)]
        elif op in ("insert", "setitem"):
            out = [{"i": i, "v": 5} for i in range(-4, 5)]
        elif op in ("pop_i", "delitem"):
            out = [{"i": i} for i in range(-4, 5)]
        elif op == "remove":
            out = [{"v": cur[0] if cur else 99}, {"v": 99}]
        elif op == "setslice":
            for st in (None, -2, 0, 1, 5):
                for sp in (None, -1, 0, 2, 5):
                    for step in (None, 2, -1):
                        for seq in ([], [5], [5, 6]):
                            out.append({"s": slice(st, sp, step), "seq": seq})
        elif op == "delslice":
            for st in (None, -2, 0, 1, 5):
                for sp in (None, -1, 0, 2, 5):
                    for step in (None, 2, -1):
                        out.append({"s": slice(st, sp, step)})
        else:
            out = [{}]
    else:
        present = sorted(cur, key=repr)[:1]
        if op in ("add", "remove", "discard"):
            out = [{"v": v} for v in present + [99]]
        elif op in ("pop", "clear"):
            out = [{}]
        else:
            seqs = [[], [99], present + [98], list(present), sorted(cur, key=repr)]
            out = [{"seq": s, "seq2": [97]} for s in seqs]
    return out


def desc_args(A):
    d = {}
    for k, v in A.items():
        d[k] = [v.start, v.stop, v.step] if isinstance(v, slice) else v
    return d


def initial_value(kind, n, store):
    if kind == "dict":
        return {KEYS[i]: i for i in range(n)}
    if kind == "list":
        return [3, 1, 2][:n] if n <= 3 else list(range(n))
    return set(range(n))


# --------------------------------------------------------------------------
class Env:
    def __init__(self, ctx):
        from vf.gen.ormrig_gk import c49_mapping, sqlite_engine

        self.ctx = ctx
        m = c49_mapping()
        self.Doc, self.Point = m["Doc"], m["Point"]
        self.kinds, self.storage = m["kinds"], m["storage"]
        self.reg = m["reg"]
        self.eng = sqlite_engine()
        self.reg.metadata.create_all(self.eng)

    def dispose(self):
        self.eng.dispose()

    def session(self):
        from sqlalchemy import orm

        return orm.Session(self.eng)

    def stored(self, sess, doc_id, attr):
        from vf.gen.ormrig_gk import raw_rows

        (raw,) = raw_rows(sess, "select %s from doc where id = ?" % attr, (doc_id,))[0]
        if raw is None:
            return None
        if self.storage[attr] == "json":
            return json.loads(raw)
        return pickle.loads(raw)


def plain(kind, v):
    if v is None:
        return None
    return {"dict": dict, "list": list, "set": set}[kind](v)


def apply_both(kind, opname, live, model, A):
    """-> (problem or None, changed)"""
    fn = ops_for(kind)[opname]
    before = plain(kind, model)
    rm = em = rc = ec = None
    try:
        rm = fn(model, A)
    except Exception as e:
        em = e
    try:
        rc = fn(live, A)
    except Exception as e:
        ec = e
    if (em is None) != (ec is None) or (em is not None and type(em) is not type(ec)):
        return "builtin %s vs Mutable %s" % (
            type(em).__name__ if em else "no exception",
            "%s: %s" % (type(ec).__name__, str(ec)[:60]) if ec else "no exception"), False
    if em is None:
        if kind == "set" and opname == "pop":
            if rc != rm:
                model.add(rm)
                model.discard(rc)
        elif opname in INPLACE:
            if (rc is live) != (rm is model):
                return "in-place operator did not return self", False
        elif rc != rm:
            return "return value builtin %r vs Mutable %r" % (rm, rc), False
    if plain(kind, live) != model:
        return "contents builtin %r vs Mutable %r" % (model, plain(kind, live)), False
    return None, model != before


def basic_path_tracks(env, attr, kind, before, opname, A):
    """control experiment for a sequence violation: the same operation from the same value
    on a fresh object that was simply committed and loaded.  False -> the operation itself
    is untracked; True -> the loss is specific to the history that preceded it."""
    with env.session() as sess:
        doc = env.Doc(tag="ctl", **{attr: plain(kind, before)})
        sess.add(doc)
        sess.commit()
        live = getattr(doc, attr)
        model = plain(kind, before)
        try:
            ops_for(kind)[opname](model, A)
            ops_for(kind)[opname](live, A)
        except Exception:
            return True
        sess.flush()
        stored = env.stored(sess, doc.id, attr)
        ok = (plain(kind, stored) if stored is not None else None) == model
        sess.rollback()
        return ok


LIFECYCLE = {"commit", "expire", "refresh", "pickle_reattach", "pickle_merge", "replace", "none"}


def check_tracked_and_persisted(env, sess, doc, attr, kind, model, what, form="ref", control=None):
    """precondition: session was clean before the mutation and the model changed.
    ``control``: (before_value, args, trail) in sequences."""
    ctx = env.ctx
    ctx.count("dirty_checks")
    opname = what["op"]
    family = {"ior_dict": "ior", "ior_pairs": "ior"}.get(opname, opname)
    base = "mutable%s-%s" % (kind, family.replace("_", "-"))
    if control is not None:
        before, A, trail = control
        last = next((t[0] for t in reversed(trail[:-1]) if t[0] in LIFECYCLE and (len(t) == 1 or t[1] == attr)), "load")
        lazy_base = lambda: (base if not basic_path_tracks(env, attr, kind, before, opname, A)
                             else "mutable%s-after-%s" % (kind, last.replace("_", "-")))
    else:
        lazy_base = lambda: base
    flagged = doc in sess.dirty and sess.is_modified(doc)
    sess.flush()
    ctx.count("db_compares")
    stored = env.stored(sess, doc.id, attr)
    stored_p = plain(kind, stored) if stored is not None else None
    if stored_p != model:
        # one mechanism whether or not an unrelated flag made the parent look dirty: the
        # in-place change did not reach the database
        mech = lazy_base() + "-not-tracked"
        ctx.violation(mech, "%s.%s %s: after flush the database holds %r, memory holds %r (parent flagged dirty: %s)" % (
            "Doc", attr, what, stored_p, model, flagged), {"attr": attr, "what": what, "stored": repr(stored_p),
                                                           "memory": repr(model), "flagged": flagged})
        return False
    if not flagged:
        ctx.violation(lazy_base() + "-not-flagged", "%s.%s %s changed the value but the parent was not in session.dirty" % (
            "Doc", attr, what), {"attr": attr, "what": what})
        return False
    return True


def single_case(env, attr, n, opname, A, form, via="refresh"):
    """via: how the value under test got onto the object - 'refresh' (commit expired the
    object, attribute access reloads it: refresh event) or 'load' (the row is loaded by a
    new session: load event)."""
    ctx = env.ctx
    kind = env.kinds[attr]
    Doc = env.Doc
    if via == "load":
        with env.session() as s0:
            d0 = Doc(tag="t", **{attr: initial_value(kind, n, env.storage[attr])})
            s0.add(d0)
            s0.commit()
            doc_id = d0.id
    with env.session() as sess:
        if via == "load":
            doc = sess.get(Doc, doc_id)
        else:
            doc = Doc(tag="t", **{attr: initial_value(kind, n, env.storage[attr])})
            sess.add(doc)
            sess.commit()
        live = getattr(doc, attr)
        ctx.count("reloads")
        ctx.count("via_" + via)
        model = plain(kind, live)
        what = {"op": opname, "args": desc_args(A), "initial": repr(model), "form": form, "via": via}
        if form == "attr":
            # doc.attr <op>= arg  : the operator result is assigned back to the attribute
            fn = ops_for(kind)[opname]
            before = plain(kind, model)
            fn(model, A)
            setattr(doc, attr, fn(getattr(doc, attr), A))
            problem, changed = None, model != before
            if plain(kind, getattr(doc, attr)) != model:
                problem = "contents builtin %r vs Mutable %r" % (model, plain(kind, getattr(doc, attr)))
        else:
            problem, changed = apply_both(kind, opname, live, model, A)
        if problem:
            ctx.violation("mutable%s-%s-behaviour" % (kind, opname.replace("_", "-")),
                          "Doc.%s %s: %s" % (attr, what, problem), {"attr": attr, "what": what, "problem": problem})
        elif changed:
            ctx.count("mutations_changed")
            check_tracked_and_persisted(env, sess, doc, attr, kind, model, what, form)
        sess.rollback()
    ctx.case({"attr": attr, "n": n, "op": opname, "args": desc_args(A), "form": form}, nontrivial=changed and not problem)


# --------------------------------------------------------------------------
# sequences with round trips
# --------------------------------------------------------------------------
def random_args(rng, kind, op, cur):
    if kind == "dict":
        k = rng.choice(KEYS)
        pairs = [(rng.choice(KEYS), rng.randint(0, 9)) for _ in range(rng.randint(0, 3))]
        if op == "update_dict_kw" and len(pairs) < 2:
            pairs += [("a", 1), ("b", 2)]
        return {"k": k, "v": rng.choice([rng.randint(0, 9), "s%d" % rng.randint(0, 3)]), "pairs": pairs}
    if kind == "list":
        n = len(cur)
        b = lambda: rng.choice([None] + list(range(-n - 1, n + 2)))
        seq = [rng.randint(0, 9) for _ in range(rng.randint(0, 3))]
        s = slice(b(), b(), rng.choice([None, None, 1, 2, -1]))
        if op == "setslice" and s.step not in (None, 1):
            seq = [rng.randint(0, 9) for _ in range(len(range(*s.indices(n))))]
        return {"v": rng.choice(list(cur) + [rng.randint(0, 9)]) if cur else rng.randint(0, 9),
                "i": rng.randint(-n - 1, n + 1), "n": rng.choice([0, 1, 2, 2]), "seq": seq, "s": s}
    pool = list(range(8))
    return {"v": rng.choice(pool), "seq": [rng.choice(pool) for _ in range(rng.randint(0, 4))],
            "seq2": [rng.choice(pool) for _ in range(rng.randint(0, 2))]}


def sequence_case(env, length, rng):
    ctx = env.ctx
    Doc, Point = env.Doc, env.Point
    attrs = list(env.kinds)
    models = {}
    init = {}
    for a in attrs:
        kind = env.kinds[a]
        init[a] = initial_value(kind, rng.randint(0, 3), env.storage[a])
        models[a] = plain(kind, init[a])
    pt_model = [rng.randint(0, 5), rng.randint(0, 5)]
    sess = env.session()
    doc = Doc(tag="seq", pt=Point(*pt_model), **init)
    sess.add(doc)
    sess.commit()
    trail = []
    ok = True
    try:
        for step in range(length):
            ctx.count("seq_steps")
            r = rng.random()
            if r < 0.62:
                a = rng.choice(attrs)
                kind = env.kinds[a]
                if models[a] is None:
                    models[a] = plain(kind, initial_value(kind, 2, None))
                    setattr(doc, a, plain(kind, models[a]))
                    sess.flush()
                opname = rng.choice(list(ops_for(kind)))
                if kind == "list" and opname in ("sort", "sort_rev") and len({type(x) for x in models[a]}) > 1:
                    opname = "reverse"
                A = random_args(rng, kind, opname, models[a])
                what = {"op": opname, "args": desc_args(A), "initial": repr(models[a]), "after": trail[-6:]}
                trail.append([a, opname])
                live = getattr(doc, a)
                before_value = plain(kind, models[a])
                problem, changed = apply_both(kind, opname, live, models[a], A)
                if problem:
                    ctx.violation("mutable%s-%s-behaviour" % (kind, opname.replace("_", "-")),
                                  "Doc.%s %s: %s" % (a, what, problem), {"attr": a, "what": what})
                    ok = False
                    break
                if changed:
                    ctx.count("mutations_changed")
                    if not check_tracked_and_persisted(env, sess, doc, a, kind, models[a], what,
                                                       control=(before_value, A, trail)):
                        # reported; re-synchronise the row (explicit flag_modified) so that
                        # the rest of the sequence is still judged
                        from sqlalchemy.orm.attributes import flag_modified

                        flag_modified(doc, a)
                        sess.flush()
                        ctx.count("resyncs_after_violation")
            elif r < 0.70:
                # composite
                which = rng.choice("xy")
                v = rng.randint(0, 9)
                trail.append(["pt", which])
                old = list(pt_model)
                setattr(doc.pt, which, v)
                pt_model["xy".index(which)] = v
                ctx.count("composite_mutations")
                if pt_model != old:
                    flagged = doc in sess.dirty
                    sess.flush()
                    from vf.gen.ormrig_gk import raw_rows

                    row = list(raw_rows(sess, "select x, y from doc where id = ?", (doc.id,))[0])
                    ctx.count("db_compares")
                    if row != pt_model or not flagged:
                        ctx.violation("mutablecomposite-setattr-not-tracked",
                                      "Doc.pt.%s = %r after %s: database holds %r, memory %r, flagged dirty %s" % (
                                          which, v, trail[-6:], row, pt_model, flagged),
                                      {"trail": trail[-8:], "row": row, "memory": pt_model})
                        ok = False
                        break
            elif r < 0.76:
                trail.append(["commit"])
                sess.commit()
                ctx.count("reloads")
            elif r < 0.80:
                trail.append(["expire"])
                sess.flush()
                sess.expire(doc)
                ctx.count("reloads")
            elif r < 0.84:
                trail.append(["refresh"])
                sess.flush()
                sess.refresh(doc)
                ctx.count("reloads")
            elif r < 0.89:
                trail.append(["pickle_reattach"])
                sess.commit()
                for a in attrs:
                    getattr(doc, a)  # load everything so the pickle carries the values
                doc.pt
                blob = pickle.dumps(doc)
                sess.close()
                doc = pickle.loads(blob)
                ctx.count("pickle_roundtrips")
                sess = env.session()
                sess.add(doc)
            elif r < 0.94:
                trail.append(["pickle_merge"])
                sess.commit()
                for a in attrs:
                    getattr(doc, a)
                doc.pt
                blob = pickle.dumps(doc)
                sess.close()
                detached = pickle.loads(blob)
                ctx.count("pickle_roundtrips")
                sess = env.session()
                doc = sess.merge(detached, load=rng.random() < 0.7)
                sess.flush()
                ctx.count("merges")
            elif r < 0.97:
                a = rng.choice(attrs)
                kind = env.kinds[a]
                newv = initial_value(kind, rng.randint(0, 3), None)
                trail.append(["replace", a])
                setattr(doc, a, newv)  # plain container: coerced
                models[a] = plain(kind, newv)
                sess.flush()
                ctx.count("db_compares")
                st = env.stored(sess, doc.id, a)
                if plain(kind, st) != models[a]:
                    ctx.violation("mutable%s-replace-not-persisted" % kind, "replacement of Doc.%s after %s" % (a, trail[-6:]),
                                  {"trail": trail[-8:]})
                    ok = False
                    break
            else:
                a = rng.choice(attrs)
                trail.append(["none", a])
                setattr(doc, a, None)
                models[a] = None
                sess.flush()
        if ok:
            # final agreement of everything
            sess.flush()
            for a in attrs:
                kind = env.kinds[a]
                st = env.stored(sess, doc.id, a)
                ctx.count("db_compares")
                mem = getattr(doc, a)
                if (plain(kind, st) if st is not None else None) != models[a] or (plain(kind, mem) if mem is not None else None) != models[a]:
                    ctx.violation("mutable%s-final-state-differs" % kind,
                                  "Doc.%s after %s: database %r memory %r model %r" % (a, trail[-8:], st, mem, models[a]),
                                  {"trail": trail[-10:]})
    finally:
        sess.rollback()
        sess.close()
    ctx.case({"seq": trail}, nontrivial=len(trail) >= 4)


def composite_cases(env):
    """single composite mutations after each kind of load."""
    from vf.gen.ormrig_gk import raw_rows

    ctx = env.ctx
    Doc, Point = env.Doc, env.Point
    for how in ("commit", "refresh", "pickle", "merge", "replace"):
        for which in "xy":
            sess = env.session()
            doc = Doc(tag="c", pt=Point(1, 2))
            sess.add(doc)
            sess.commit()
            if how == "refresh":
                sess.refresh(doc)
            elif how in ("pickle", "merge"):
                doc.pt
                blob = pickle.dumps(doc)
                sess.close()
                d2 = pickle.loads(blob)
                ctx.count("pickle_roundtrips")
                sess = env.session()
                if how == "pickle":
                    sess.add(d2)
                    doc = d2
                else:
                    doc = sess.merge(d2)
                    ctx.count("merges")
            elif how == "replace":
                doc.pt = Point(5, 6)
                sess.flush()
            model = [doc.pt.x, doc.pt.y]
            setattr(doc.pt, which, 42)
            model["xy".index(which)] = 42
            ctx.count("composite_mutations")
            flagged = doc in sess.dirty
            sess.flush()
            row = list(raw_rows(sess, "select x, y from doc where id = ?", (doc.id,))[0])
            ctx.count("db_compares")
            if row != model or not flagged:
                ctx.violation("mutablecomposite-setattr-not-tracked",
                              "Doc.pt.%s = 42 after %s: database %r memory %r flagged %s" % (which, how, row, model, flagged),
                              {"how": how, "row": row, "memory": model})
            ctx.case({"composite": how, "attr": which}, nontrivial=True)
            sess.rollback()
            sess.close()


ARRIVALS = ("constructed", "load", "refresh", "expire", "pickle_reattach", "pickle_merge", "merge_noload")


def hierarchy_cases(ctx):
    """Mutable columns mapped on an ancestor: an instance of every class of a 4-level
    single-table and joined-table hierarchy gets its value by construction, load,
    refresh, expire+reload, unpickling and merge (load=True / False); then one in-place
    mutation must be tracked and persisted."""
    from sqlalchemy import orm
    from vf.gen.ormrig_gk import c49_hierarchy, raw_rows, sqlite_engine

    h = c49_hierarchy()
    eng = sqlite_engine()
    h["reg"].metadata.create_all(eng)
    idx = 0
    for prefix, classes in h["hier"].items():
        tables = {"d": classes[0].__table__.name, "l": classes[1].__table__.name}
        for depth, cls in enumerate(classes):
            attrs = ["d"] + (["l"] if depth >= 1 else [])
            for attr in attrs:
                declared_at = 0 if attr == "d" else 1
                for arrival in ARRIVALS:
                    idx += 1
                    if not ctx.mine(idx):
                        continue
                    init = {"n": 0} if attr == "d" else [0]
                    sess = orm.Session(eng)
                    obj = cls(**{attr: init})
                    sess.add(obj)
                    if arrival == "constructed":
                        sess.flush()
                    else:
                        sess.commit()
                        oid = obj.id
                        if arrival == "load":
                            sess.close()
                            sess = orm.Session(eng)
                            obj = sess.get(cls, oid)
                        elif arrival == "refresh":
                            sess.refresh(obj)
                        elif arrival == "expire":
                            sess.expire(obj)
                        else:
                            getattr(obj, attr)
                            blob = pickle.dumps(obj)
                            sess.close()
                            det = pickle.loads(blob)
                            ctx.count("pickle_roundtrips")
                            sess = orm.Session(eng)
                            if arrival == "pickle_reattach":
                                sess.add(det)
                                obj = det
                            else:
                                obj = sess.merge(det, load=(arrival == "pickle_merge"))
                                ctx.count("merges")
                                sess.flush()
                    live = getattr(obj, attr)
                    if attr == "d":
                        live["k"] = 1
                        model = {"n": 0, "k": 1}
                    else:
                        live.append(5)
                        model = [0, 5]
                    ctx.count("hierarchy_mutations")
                    flagged = obj in sess.dirty and sess.is_modified(obj)
                    sess.flush()
                    raw = raw_rows(sess, "select %s from %s where id = ?" % (attr, tables[attr]), (obj.id,))[0][0]
                    stored = json.loads(raw) if raw is not None else None
                    ctx.count("db_compares")
                    if stored != model or not flagged:
                        ctx.violation(
                            # one mechanism per distance from the mapping class (the arrival is in the witness)
                            "mutable-column-not-tracked-on-%s" % (
                                ["declaring-class", "direct-subclass", "deep-subclass"][min(depth - declared_at, 2)]),
                            "%s.%s (column mapped on %s) after %s: database %r, memory %r, parent flagged dirty %s" % (
                                cls.__name__, attr, classes[declared_at].__name__, arrival, stored, model, flagged),
                            {"class": cls.__name__, "attr": attr, "arrival": arrival, "stored": stored, "memory": model})
                    ctx.case({"hier": cls.__name__, "attr": attr, "arrival": arrival}, nontrivial=True)
                    sess.rollback()
                    sess.close()
    eng.dispose()


def negative_control(env):
    """nested plain containers are documented as untracked: show the monitor sees that."""
    ctx = env.ctx
    with env.session() as sess:
        doc = env.Doc(tag="neg", d_json={"nest": [1]})
        sess.add(doc)
        sess.commit()
        doc.d_json["nest"].append(2)
        sess.flush()
        if env.stored(sess, doc.id, "d_json") != {"nest": [1, 2]}:
            ctx.count("negative_control_lost")
        sess.rollback()


def run(ctx):
    import warnings

    from sqlalchemy import exc as sa_exc

    warnings.simplefilter("ignore", sa_exc.SAWarning)
    env = Env(ctx)
    idx = 0
    nmax = ctx.pick({"quick": 3, "thorough": 4})
    for attr, kind in env.kinds.items():
        for n in range(0, nmax + 1):
            cur = plain(kind, initial_value(kind, n, None))
            for opname in ops_for(kind):
                for A in arg_variants(kind, opname, cur):
                    forms = ("ref", "attr") if opname in INPLACE else ("ref",)
                    for form in forms:
                        idx += 1
                        if not ctx.mine(idx):
                            continue
                        if ctx.quick and opname in ("setslice", "delslice") and (idx // ctx.nshards) % 3:
                            continue
                        single_case(env, attr, n, opname, A, form, via=("load" if (idx // ctx.nshards) % 2 else "refresh"))
                        if idx % 997 == 0:
                            ctx.sample({"attr": attr, "n": n, "op": opname, "args": desc_args(A), "form": form})
    hierarchy_cases(ctx)
    if ctx.shard == 0:
        negative_control(env)
    if ctx.mine(1):
        composite_cases(env)
    nseq = ctx.pick({"quick": 40, "thorough": 1200})
    length = ctx.pick({"quick": 25, "thorough": 40})
    for k in range(nseq):
        if not ctx.budget_ok():
            break
        sequence_case(env, length, ctx.rng)
    env.dispose()
