"""C50 -- ordering lists and association proxies behave as their collection types.

Part A (ordering_list): a relationship whose collection_class is
``ordering_list("position", ...)`` in four variants (default, count_from=1,
reorder_on_append=True, custom ordering_func) is driven through C38's list operation
space (exhaustive: sizes 0..3 x all slices -6..6 x right-hand sides of 0..3 fresh
members, all indices, all methods) and through random sequences with interleaved
flushes.  Judged after every operation on the *live* collection:
  * position invariant: ``coll[i].position == ordering_func(i)`` for every i;
  * lock-step differential against a plain list (exception type, return, contents);
  * persistence (sampled + every sequence): after commit the raw rows of the bullet
    table ordered by position are exactly the in-memory order with the expected
    position values, and the expired collection reloads in that order.
Part A0 (standalone): ``OrderingList.__setitem__`` with a slice is only reachable on an
OrderingList class that the ORM has not instrumented yet (inside a relationship
``_list_decorators.__setitem__`` intercepts slices and never delegates them), so this
part runs first in the process, on plain objects, restricted to the methods that work
without a collection adapter.  It re-found DESIGN section 6's `orderinglist-slice-setitem`
(fixed in /repo by c3b4a65; reverse diff kept in selftest/C50).

Still firing on the live tree (candidate defects, see the report):
``orderinglist-setitem-negative-index``, ``orderinglist-member-permutation-orphaned``,
``assocproxy-list-slice-setitem-bounds``, ``assocproxy-list-extended-slice-setitem-
iterator-rhs``, ``assocproxy-list-extend-self-unbounded``, ``assocproxy-set-difference-
update-self``, ``assocproxy-dict-pop-default-through-getter``.

Part B (association proxies): list-of-str, set-of-str, dict, list-of-objects (through an
association object) and proxy-of-proxy collections in lock-step with a plain
list/set/dict of the proxied values, then the association rows after commit.

Bulk replacement (added after the second seeded-change round): ``parent.proxy = <iterable>``
for all five proxy shapes - any subset of the current values, 0..2 fresh ones, fresh and/or
kept values repeated, as list / tuple / generator / iterator / set / frozenset / dict, the
proxy itself and copies of it - judged on contents + len, on removing a repeated value
once, and on the association rows; ``slide.bullets = <list>`` for the four ordering_list
variants (sub-sequences and permutations of the members plus fresh ones at either end,
the collection itself, a copy): contents, documented position rule (fresh members get
their index, existing ones keep theirs unless reorder_on_append), reorder(), persistence.
Relationship attributes accept list-likes only, so no tuples/generators there.
Candidate defect found by it: ``assocproxy-set-assign-consumes-one-shot-iterable``
(``parent.set_proxy = (v for v in ...)`` leaves the set empty; patch in selftest/C50).

Guards (documented / by-design behaviour not demanded):
* ordering_list: ``append`` of an entity that already has a position keeps it unless
  ``reorder_on_append`` (documented) -> only fresh entities are appended, existing ones
  are re-inserted with ``insert`` (which renumbers); ``sort`` / ``reverse`` / ``*=`` are
  not intercepted by OrderingList -> generated only as "reverse; reorder()";
  duplicates are not generated; collection replacement is not generated.
* slice assignment outside C38's simple domain (step <= 0, bounds outside [-len, len])
  shares C38's `list-slice-setitem-bounds` defect: there only the position invariant is
  judged, not the differential.  Operations whose divergence is C38's subject
  (non-iterable / unsized right-hand sides) are not generated.
* _AssociationList.reverse/sort raise NotImplementedError by documentation, ``*=`` is
  documented to create fresh backing objects (values are compared, n >= 0 only);
  _AssociationDict has no ``|`` / ``|=`` (MutableMapping); None values not generated.
* order of association rows is not persisted for plain list proxies: compared as multisets.
"""
from __future__ import annotations

import itertools

META = {
    "id": "C50",
    "level": "exploration",
    "technique": "lock-step differential of ordering_list / association-proxy collections against builtin models + position invariant + raw association rows after flush",
    "level_text": "Exhaustive C38 list-operation space (sizes 0..3, all slices with bounds/steps in -6..6, all indices, all methods) on four ordering_list variants with the position invariant judged after every operation; all list/set/dict operations on five association-proxy shapes; seeded random sequences with interleaved commits and raw-row comparison.",
    "level_note": "SQLite in-memory database only. OrderingList.__setitem__(slice) is dead code under instrumentation; it is exercised on the not-yet-instrumented class (standalone part). sort/reverse/*= on ordering lists are not intercepted by the library and are judged only when followed by reorder().",
    "design_ref": "DESIGN.md section 4, C50",
    "rule": "case = (flavour, initial size, operation spec | sequence); non-trivial = the reference operation changed the contents, returned a value, or raised; sequences with >=3 steps",
    "shards": {"quick": 8, "thorough": 16},
    "soft_s": {"quick": 60, "thorough": 900},
    "exhaustive": {"quick": True, "thorough": True},
    "require": ["ol_cases", "position_checks", "persist_checks", "proxy_list_cases", "proxy_set_cases",
                "proxy_dict_cases", "proxy_row_checks", "standalone_cases", "seq_steps", "assign_cases"],
    "assumptions": ["builtin list/set/dict are the reference models"],
}

CHECK_STANDALONE = True


class Runaway(Exception):
    pass


# --------------------------------------------------------------------------
# Part A0: standalone (uninstrumented) OrderingList
# --------------------------------------------------------------------------
class Item:
    def __init__(self, name):
        self.name = name
        self.position = None

    def __repr__(self):
        return "%s@%s" % (self.name, self.position)


def standalone_part(ctx):
    from sqlalchemy.ext.orderinglist import OrderingList

    if getattr(OrderingList, "_sa_instrumented", None) == id(OrderingList):
        return  # too late in this process: counter stays 0 -> inconclusive
    vals = (None, -4, -3, -2, -1, 0, 1, 2, 3, 4)
    idx = 0
    serial = itertools.count()

    def fresh(n):
        ol = OrderingList("position")
        for i in range(n):
            ol.append(Item("k%d" % i))
        return ol, list(ol)

    def finish(ol, model, em, ec, desc, hint):
        ctx.count("standalone_cases")
        problem = None
        if (em is None) != (ec is None) or (em is not None and type(em) is not type(ec)):
            problem = "list %s vs OrderingList %s" % (
                type(em).__name__ if em else "no exception",
                "%s: %s" % (type(ec).__name__, ec) if ec else "no exception")
        elif len(ol) != len(model) or any(a is not b for a, b in zip(ol, model)):
            problem = "contents: list %r vs OrderingList %r" % (model, list(ol))
        elif any(e.position != i for i, e in enumerate(ol)):
            problem = "positions != indices: %r" % (list(ol),)
        ctx.case(desc, nontrivial=True)
        if problem:
            ctx.violation(hint, "standalone OrderingList %s: %s" % (desc, problem), {"case": desc, "problem": problem})

    for n in range(0, 4):
        for st, sp in itertools.product(vals, vals):
            for step in (None, 1, 2):
                for r in range(0, 4):
                    idx += 1
                    if not ctx.mine(idx):
                        continue
                    ol, model = fresh(n)
                    rhs = [Item("x%d" % next(serial)) for _ in range(r)]
                    s = slice(st, sp, step)
                    em = ec = None
                    try:
                        model[s] = rhs
                    except Exception as e:
                        em = e
                    try:
                        ol[s] = rhs
                    except Exception as e:
                        ec = e
                    finish(ol, model, em, ec, {"standalone": "setslice", "n": n, "slice": [st, sp, step], "rhs": r},
                           "orderinglist-slice-setitem")
        for i in range(-5, 6):
            for op in ("setitem", "insert", "pop", "delitem"):
                idx += 1
                if not ctx.mine(idx):
                    continue
                ol, model = fresh(n)
                x = Item("x%d" % next(serial))
                em = ec = None
                for tgt in (model, ol):
                    try:
                        if op == "setitem":
                            tgt[i] = x
                        elif op == "insert":
                            tgt.insert(i, x)
                        elif op == "pop":
                            tgt.pop(i)
                        else:
                            del tgt[i]
                    except Exception as e:
                        if tgt is model:
                            em = e
                        else:
                            ec = e
                hint = "orderinglist-standalone-" + op
                if op == "setitem" and i < 0:
                    hint = "orderinglist-setitem-negative-index"
                finish(ol, model, em, ec, {"standalone": op, "n": n, "i": i}, hint)


# --------------------------------------------------------------------------
# Part A1: ordering_list inside a relationship
# --------------------------------------------------------------------------
class OLEnv:
    def __init__(self, ctx):
        from vf.gen.ormrig_gk import c50_ordering_mapping, sqlite_engine

        self.ctx = ctx
        self.reg, self.variants = c50_ordering_mapping()
        self.eng = sqlite_engine()
        self.reg.metadata.create_all(self.eng)
        self.serial = 0

    def dispose(self):
        self.eng.dispose()
        self.reg.dispose()

    def fresh(self, variant, n):
        S, B, f = self.variants[variant]

        def mk(name=None):
            self.serial += 1
            return B(name=name or "x%d" % self.serial)

        s = S()
        for i in range(n):
            s.bullets.append(mk("k%d" % i))
        return s, s.bullets, list(s.bullets), mk, f


OL_SKIP_OPS = {"reverse", "sort", "imul"}


def ol_spec_filter(spec):
    """None = not generated, else 'full' | 'posonly'."""
    op = spec[0]
    if op in OL_SKIP_OPS:
        return None
    if op in ("extend", "iadd") and spec[2] in ("self", "nonit"):
        return None if spec[2] == "self" else "full"
    if op == "setslice" and spec[3] == "nonit":
        return None
    if op == "setslice" and spec[3] in ("iter", "gen") and spec[1][2] not in (None, 1):
        return None
    return "full"


def positions_ok(coll, f):
    return all(e.position == f(i) for i, e in enumerate(coll))


def ol_judge(env, variant, n, spec, coll, model, mk, f, trail=None):
    from vf.props import c38
    from vf.gen.ormrig_gk import slice_in_simple_domain

    ctx = env.ctx
    op = spec[0]
    mode = "full"
    if op in ("setslice", "setslice_members") and not slice_in_simple_domain(slice(*spec[1]), n):
        mode = "posonly"
    a = c38.list_materialize(spec, list(model), mk)
    before = [b.name for b in model]
    apply = _swap_apply(spec) if op == "swap" else c38.list_apply
    rm, em = c38.call(apply, op, model, a)
    rc, ec = c38.call(apply, op, coll, a)
    problem = mech = None
    if mode == "full":
        if (em is None) != (ec is None) or (em is not None and type(em) is not type(ec)):
            problem = "list %s vs ordering list %s" % (
                type(em).__name__ if em else "no exception",
                "%s: %s" % (type(ec).__name__, str(ec)[:80]) if ec else "no exception")
            mech = "orderinglist-%s-exception" % op
        elif em is None and not c38.same(rc, rm, coll, model):
            problem = "return: list %r vs ordering list %r" % (rm, rc)
            mech = "orderinglist-%s-return" % op
        elif not c38.contents_same("list", coll, model):
            problem = "contents: list %r vs ordering list %r" % ([b.name for b in model], list(coll))
            mech = "orderinglist-%s-contents" % op
    else:
        # the differential is C38's business here; keep the model in step with reality
        model[:] = list(coll)
    ctx.count("position_checks")
    if problem is None and not positions_ok(coll, f):
        problem = "position != ordering_func(index): %r expected %r" % (list(coll), [f(i) for i in range(len(coll))])
        mech = "orderinglist-%s-position" % op
        ln = len(coll)
        bad = [(i, e) for i, e in enumerate(coll) if e.position != f(i)]
        if op in ("setitem", "setslice", "setslice_members") and all(e.position == f(i - ln) for i, e in bad):
            # every wrong position is the numbering of the *negative* form of the index
            mech = "orderinglist-setitem-negative-index"
    if problem:
        w = {"variant": variant, "initial": before, "spec": list(spec), "problem": problem}
        if trail:
            w["sequence_so_far"] = trail[-8:]
        ctx.violation(mech.replace("_", "-"), "%s %s on %r: %s" % (variant, list(spec), before, problem), w)
        return False
    return True


def _swap_apply(spec):
    i, j = spec[1], spec[2]

    def apply(op, t, a):
        t[i], t[j] = t[j], t[i]

    return apply


def transient_duplicate(spec):
    """operations that assign current members index by index, so that a member is
    appended at its new index before it is removed from its old one"""
    return spec[0] == "swap" or (spec[0] == "setslice_members" and spec[1][2] not in (None, 1))


def ol_persist(env, sess, variant, slide, coll, f, what, permuted=False):
    """commit, compare raw rows (ordered by position) and the reloaded collection."""
    from vf.gen.ormrig_gk import raw_rows

    ctx = env.ctx
    S, B, _ = env.variants[variant]
    sess.add(slide)
    sess.commit()
    ctx.count("persist_checks")
    want_ids = [b.id for b in coll]
    want_pos = [f(i) for i in range(len(coll))]
    rows = raw_rows(sess, "select id, position from %s where slide_id = ? order by position, id" % B.__table__.name,
                    (slide.id,))
    problem = None
    if [r[0] for r in rows] != want_ids or [r[1] for r in rows] != want_pos:
        problem = "rows (id, position) %r but in-memory order ids %r positions %r" % (rows, want_ids, want_pos)
    else:
        members = list(coll)
        sess.expire(slide)
        again = list(slide.bullets)
        if len(again) != len(members) or any(x is not y for x, y in zip(again, members)):
            problem = "reloaded order %r differs from in-memory order %r" % (again, members)
    if problem:
        mech = "orderinglist-member-permutation-orphaned" if permuted else "orderinglist-order-not-persisted"
        ctx.violation(mech, "%s %s: %s" % (variant, what, problem),
                      {"variant": variant, "what": what, "problem": problem})
        return False
    return True


def ol_single(env, variant, n, spec, persist):
    from sqlalchemy import orm

    ctx = env.ctx
    slide, coll, model, mk, f = env.fresh(variant, n)
    ctx.count("ol_cases")
    snapshot = [id(x) for x in model]
    ok = ol_judge(env, variant, n, spec, coll, model, mk, f)
    if ok and persist:
        with orm.Session(env.eng, expire_on_commit=False) as sess:
            ol_persist(env, sess, variant, slide, slide.bullets, f, list(spec), permuted=transient_duplicate(spec))
    ctx.case({"v": variant, "n": n, "spec": list(spec)},
             nontrivial=[id(x) for x in model] != snapshot or not ok or spec[0] not in _mutators())


def _mutators():
    from vf.props import c38

    return c38.LIST_MUTATORS


def ol_random_spec(rng, cur_len, variant):
    from vf.props import c38

    r = rng.random()
    if r < 0.10 and cur_len:
        return ("move_insert", rng.randrange(cur_len), rng.randint(-cur_len - 1, cur_len + 1))
    if r < 0.14 and cur_len and variant == "olr":
        return ("move_append", rng.randrange(cur_len))
    if r < 0.18:
        return ("reverse_reorder",)
    if r < 0.24 and cur_len >= 2:
        i, j = sorted(rng.sample(range(cur_len), 2))
        return ("swap", i, j)
    for _ in range(50):
        spec = c38.random_list_spec(rng, cur_len)
        if ol_spec_filter(spec):
            return spec
    return ("append",)


def ol_sequence(env, variant, length, rng):
    from sqlalchemy import orm

    ctx = env.ctx
    slide, coll, model, mk, f = env.fresh(variant, rng.randint(0, 3))
    trail = []
    ok = True
    permuted = False
    with orm.Session(env.eng, expire_on_commit=False) as sess:
        for step in range(length):
            coll = slide.bullets
            spec = ol_random_spec(rng, len(model), variant)
            permuted = permuted or transient_duplicate(spec)
            trail.append(list(spec))
            ctx.count("seq_steps")
            if spec[0] in ("move_insert", "move_append", "reverse_reorder"):
                if spec[0] == "move_insert":
                    model.insert(spec[2], model.pop(spec[1]))
                elif spec[0] == "move_append":
                    model.append(model.pop(spec[1]))
                else:
                    model.reverse()
                try:
                    if spec[0] == "move_insert":
                        coll.insert(spec[2], coll.pop(spec[1]))
                    elif spec[0] == "move_append":
                        coll.append(coll.pop(spec[1]))
                    else:
                        coll.reverse()
                        coll.reorder()
                except Exception as e:  # the plain list did not raise
                    ctx.violation("orderinglist-%s-exception" % spec[0].replace("_", "-"),
                                  "%s %s: %s: %s" % (variant, trail[-4:], type(e).__name__, e),
                                  {"variant": variant, "sequence_so_far": trail[-8:]})
                    ok = False
                    break
                ok = _ol_after(env, variant, coll, model, f, trail)
            else:
                ok = ol_judge(env, variant, len(model), spec, coll, model, mk, f, trail)
            if not ok:
                break
            if rng.random() < 0.2:
                ok = ol_persist(env, sess, variant, slide, slide.bullets, f, trail[-8:], permuted=permuted)
                permuted = False
                if not ok:
                    break
        if ok:
            ol_persist(env, sess, variant, slide, slide.bullets, f, trail[-8:], permuted=permuted)
    ctx.case({"v": variant, "seq": trail}, nontrivial=len(trail) >= 3)


def _ol_after(env, variant, coll, model, f, trail):
    from vf.props import c38

    ctx = env.ctx
    ctx.count("position_checks")
    problem = None
    if not c38.contents_same("list", coll, model):
        problem = "contents: list %r vs ordering list %r" % ([b.name for b in model], list(coll))
    elif not positions_ok(coll, f):
        problem = "position != ordering_func(index): %r" % (list(coll),)
    if problem:
        ctx.violation("orderinglist-%s-position" % trail[-1][0].replace("_", "-"),
                      "%s %s: %s" % (variant, trail[-1], problem), {"variant": variant, "sequence_so_far": trail[-8:]})
        return False
    return True


# --------------------------------------------------------------------------
# Part B: association proxies
# --------------------------------------------------------------------------
class PxEnv:
    def __init__(self, ctx):
        from vf.gen.ormrig_gk import c50_proxy_mapping, sqlite_engine

        self.ctx = ctx
        self.created = 0
        self.limit = 400

        def guard():
            self.created += 1
            if self.created > self.limit:
                raise Runaway("more than %d backing objects created by one operation" % self.limit)

        self.reg, self.ns = c50_proxy_mapping(guard)
        self.eng = sqlite_engine()
        self.reg.metadata.create_all(self.eng)
        self.serial = 0

    def dispose(self):
        self.eng.dispose()
        self.reg.dispose()


LIST_FLAVOURS = {"PL": "names", "PP": "kwnames", "PO": "kws"}


def veq(a, b, proxy, model):
    """value equality of results (proxied values are str or identity-compared objects)."""
    if a is proxy or b is model:
        return a is proxy and b is model
    if isinstance(a, (list, tuple)) and isinstance(b, (list, tuple)):
        return isinstance(a, tuple) == isinstance(b, tuple) and len(a) == len(b) and all(
            veq(x, y, proxy, model) for x, y in zip(a, b))
    if isinstance(b, (set, frozenset)):
        return isinstance(a, (set, frozenset)) and set(a) == set(b)
    if isinstance(b, dict):
        return isinstance(a, dict) and list(a.items()) == list(b.items())
    if isinstance(b, (bool, int)):
        return type(a) is type(b) and a == b
    return a == b


def px_contents(fam, proxy):
    if fam == "list":
        return list(proxy)
    if fam == "set":
        return set(proxy)
    return dict(proxy.items())


def px_contents_same(fam, proxy, model):
    got = px_contents(fam, proxy)
    if fam == "dict":
        return list(got.items()) == list(model.items()) and len(proxy) == len(model)
    return got == model and len(proxy) == len(model)


def px_fresh(env, flavour, n):
    ns = env.ns
    env.created = 0
    par = ns["Par"]()

    def newval(arg=None):
        env.serial += 1
        if flavour == "PO":
            return ns["KW"](name="x%d" % env.serial)
        return "x%d" % env.serial

    if flavour in LIST_FLAVOURS:
        proxy = getattr(par, LIST_FLAVOURS[flavour])
        if flavour == "PO":
            k0 = ns["KW"](name="k0")
            init = [k0, ns["KW"](name="k1"), k0][:n]
        else:
            init = ["k0", "k1", "k0"][:n]  # a duplicate value: legal in a list of values
        for v in init:
            proxy.append(v)
        model = list(init)
        fam = "list"
    elif flavour == "PS":
        proxy = par.tags
        init = ["k%d" % i for i in range(n)]
        for v in init:
            proxy.add(v)
        model = set(init)
        fam = "set"
    else:
        from vf.props.c38 import KEYS

        proxy = par.vals
        model = {}
        for i in range(n):
            proxy[KEYS[i]] = "v%d" % i
            model[KEYS[i]] = "v%d" % i
        fam = "dict"
    return par, proxy, model, newval, fam


def px_list_filter(spec):
    op = spec[0]
    if op in ("reverse", "sort", "setslice_members"):
        return False
    if op in ("imul", "mul") and spec[1] < 0:
        return False
    if op == "add" and spec[2] == "tuple":
        return False  # `proxy + iterable` is documented to accept any iterable
    return True


def px_dict_filter(spec):
    return spec[0] not in ("u:ior", "u:ior_pairs", "u:or")


def px_set_materialize(env, spec, cur_list, newval, proxy):
    op = spec[0]
    a = {}
    if op in ("add", "discard", "remove", "contains"):
        j = spec[1]
        a["x"] = cur_list[j] if 0 <= j < len(cur_list) else newval()
    elif op[:2] in ("m:", "o:"):
        _, mask, nf, ak = spec
        items = [c for k, c in enumerate(cur_list) if mask >> k & 1] + [newval() for _ in range(nf)]
        if ak == "set":
            v = set(items)
            a["arg"] = lambda t: v
        elif ak == "frozenset":
            v = frozenset(items)
            a["arg"] = lambda t: v
        elif ak == "list":
            v = items + items[:1]
            a["arg"] = lambda t: v
        elif ak == "iter":
            a["arg"] = lambda t: iter(items)
        elif ak == "self":
            a["arg"] = lambda t: t
        elif ak == "coll":
            other = env.ns["Par"]()
            for v in items:
                other.tags.add(v)
            op_proxy = other.tags
            plain = set(items)
            a["arg"] = lambda t: op_proxy if t is proxy else plain
            a["keep"] = other
    return a


def px_hint(fam, spec, n):
    from vf.gen.ormrig_gk import slice_in_simple_domain

    op = spec[0]
    if fam == "list":
        if op == "setslice" and (not slice_in_simple_domain(slice(*spec[1]), n)
                                 or (spec[1][0] is not None and spec[1][0] < 0)):
            # _AssociationList.__setitem__ normalises a negative stop but not a negative
            # start, and clamps nothing
            return "assocproxy-list-slice-setitem-bounds"
        if op == "insert" and not (-n <= spec[1] <= n):
            # insert() is `col[i:i] = [...]` on the InstrumentedList: C38's bounds defect
            return "assocproxy-list-insert-out-of-range-index"
        if op == "setslice" and spec[3] in ("iter", "gen") and spec[1][2] not in (None, 1):
            return "assocproxy-list-extended-slice-setitem-iterator-rhs"
        if op in ("extend", "iadd") and spec[2] == "self":
            return "assocproxy-list-extend-self-unbounded"
    if fam == "dict" and op == "pop_default":
        return "assocproxy-dict-pop-default-through-getter"
    if fam == "set" and op in ("m:difference_update", "o:isub") and spec[3] == "self":
        return "assocproxy-set-difference-update-self"
    return None


def px_judge(env, flavour, fam, n, spec, proxy, model, newval, trail=None):
    from vf.props import c38

    ctx = env.ctx
    op = spec[0]
    env.created = 0
    if fam == "list":
        a = c38.list_materialize(spec, list(model), newval)
        apply = c38.list_apply
    elif fam == "set":
        a = px_set_materialize(env, spec, sorted(model), newval, proxy)
        apply = c38.set_apply
    else:
        a = c38.dict_materialize(spec, dict(model), newval)
        apply = c38.dict_apply
    env.created = 0
    before = repr(model)
    rm, em = c38.call(apply, op, model, a)
    rc, ec = c38.call(apply, op, proxy, a)
    problem = aspect = None
    if (em is None) != (ec is None) or (em is not None and type(em) is not type(ec)):
        aspect = "exception"
        problem = "builtin %s vs proxy %s" % (
            type(em).__name__ if em else "no exception",
            "%s: %s" % (type(ec).__name__, str(ec)[:80]) if ec else "no exception")
    elif em is None:
        if fam == "set" and op == "pop":
            if rc != rm:
                if rc in model or rc == rm:
                    model.add(rm)
                    model.discard(rc)
                else:
                    aspect, problem = "return", "popped value %r was not a member" % (rc,)
        elif not veq(rc, rm, proxy, model):
            aspect, problem = "return", "builtin returned %r, proxy returned %r" % (rm, rc)
    if aspect is None and not px_contents_same(fam, proxy, model):
        aspect, problem = "contents", "builtin %r vs proxy %r" % (model, px_contents(fam, proxy))
    if aspect is None:
        return True
    mech = px_hint(fam, spec, n) or "assocproxy-%s-%s-%s" % (fam, op.replace(":", "-").replace("_", "-"), aspect)
    w = {"flavour": flavour, "initial": before, "spec": list(spec), "aspect": aspect, "problem": problem}
    if trail:
        w["sequence_so_far"] = trail[-8:]
    ctx.violation(mech, "%s %s on %s: %s" % (flavour, list(spec), before, problem), w)
    return False


def px_rows(env, sess, flavour, fam, par, model, what):
    from vf.gen.ormrig_gk import raw_rows, multiset

    ctx = env.ctx
    sess.add(par)
    sess.commit()
    ctx.count("proxy_row_checks")
    pid = par.id
    if flavour == "PL":
        got = [r[0] for r in raw_rows(sess, "select name from litem where pid = ? order by id", (pid,))]
        ok = multiset(got) == multiset(model)
    elif flavour == "PS":
        got = [r[0] for r in raw_rows(sess, "select name from sitem where pid = ?", (pid,))]
        ok = len(got) == len(model) and set(got) == model
    elif flavour == "PD":
        got = raw_rows(sess, "select key, value from ditem where pid = ?", (pid,))
        ok = len(got) == len(model) and dict(got) == model
    else:
        got = [r[0] for r in raw_rows(
            sess, "select kw.name from uk join kw on kw.id = uk.kwid where uk.pid = ? order by uk.id", (pid,))]
        want = [k.name for k in model] if flavour == "PO" else list(model)
        ok = multiset(got) == multiset(want)
    if not ok:
        ctx.violation("assocproxy-rows-differ-from-collection",
                      "%s %s: association rows %r but proxy collection %r" % (flavour, what, got, model),
                      {"flavour": flavour, "what": what, "rows": got, "model": repr(model)})
    return ok


def px_single(env, flavour, n, spec, rows):
    from sqlalchemy import orm
    from vf.props import c38

    ctx = env.ctx
    par, proxy, model, newval, fam = px_fresh(env, flavour, n)
    ctx.count("proxy_%s_cases" % fam)
    snap = repr(model)
    ok = px_judge(env, flavour, fam, n, spec, proxy, model, newval)
    if ok and rows:
        with orm.Session(env.eng, expire_on_commit=False) as sess:
            px_rows(env, sess, flavour, fam, par, model, list(spec))
    mut = {"list": lambda o: o in c38.LIST_MUTATORS, "set": c38.set_is_mutator, "dict": c38.dict_is_mutator}[fam](spec[0])
    ctx.case({"f": flavour, "n": n, "spec": list(spec)}, nontrivial=repr(model) != snap or not ok or not mut)


def px_sequence(env, flavour, length, rng):
    from sqlalchemy import orm
    from vf.props import c38

    ctx = env.ctx
    par, proxy, model, newval, fam = px_fresh(env, flavour, rng.randint(0, 3))
    trail = []
    ok = True
    with orm.Session(env.eng, expire_on_commit=False) as sess:
        for step in range(length):
            n = len(model)
            for _ in range(50):
                if fam == "list":
                    spec = c38.random_list_spec(rng, n)
                    good = px_list_filter(spec) and px_hint(fam, spec, n) is None and not (
                        spec[0] == "setslice" and spec[3] == "nonit")
                elif fam == "set":
                    spec = c38.random_set_spec(rng, n)
                    good = True
                else:
                    spec = c38.random_dict_spec(rng, n)
                    good = px_dict_filter(spec) and px_hint(fam, spec, n) is None
                if good:
                    break
            else:
                break
            trail.append(list(spec))
            ctx.count("seq_steps")
            ok = px_judge(env, flavour, fam, n, spec, proxy, model, newval, trail)
            if not ok:
                break
            if rng.random() < 0.15:
                ok = px_rows(env, sess, flavour, fam, par, model, trail[-8:])
                if not ok:
                    break
        if ok:
            px_rows(env, sess, flavour, fam, par, model, trail[-8:])
    ctx.case({"f": flavour, "seq": trail}, nontrivial=len(trail) >= 3)


# --------------------------------------------------------------------------
def run(ctx):
    import warnings

    from sqlalchemy import exc as sa_exc
    from vf.props import c38

    warnings.simplefilter("ignore", sa_exc.SAWarning)
    if CHECK_STANDALONE:
        standalone_part(ctx)
    idx = 0
    # ---- ordering_list: exhaustive single operations
    env = OLEnv(ctx)
    variants = list(env.variants)
    for n in range(0, 4):
        for spec in c38.list_specs_slices():
            idx += 1
            if not ctx.mine(idx):
                continue
            if spec[0] == "getslice" and idx % 5:
                continue
            if ctx.quick and (idx // ctx.nshards) % 3:
                continue  # quick: a third of the slice space per variant rotation
            variant = variants[(idx // ctx.nshards) % len(variants)]
            ol_single(env, variant, n, spec, persist=(idx // ctx.nshards) % 29 == 0)
        swaps = [("swap", i, j) for i in range(n) for j in range(n) if i != j]
        for spec in itertools.chain(c38.list_specs_other(), swaps):
            if not ol_spec_filter(spec):
                continue
            for variant in variants:
                idx += 1
                if ctx.mine(idx):
                    ol_single(env, variant, n, spec,
                              persist=(idx // ctx.nshards) % 7 == 0 or spec[0] in ("swap", "setslice_members"))
    idx = assign_ordering_lists(env, ctx, idx)
    ctx.count("exhaustive_ol_done")
    nseq = ctx.pick({"quick": 60, "thorough": 1500})
    length = ctx.pick({"quick": 12, "thorough": 25})
    for k in range(nseq):
        if k >= 3 and not ctx.budget_ok():
            break
        ol_sequence(env, variants[k % len(variants)], length, ctx.rng)
    env.dispose()
    # ---- association proxies
    px = PxEnv(ctx)
    for flavour in ("PL", "PP", "PO"):
        for n in range(0, 4):
            specs = itertools.chain(c38.list_specs_other(), _px_slice_specs(ctx))
            for spec in specs:
                if not px_list_filter(spec):
                    continue
                idx += 1
                if ctx.mine(idx):
                    px_single(px, flavour, n, spec, rows=(idx // ctx.nshards) % 11 == 0)
    for n in range(0, 4):
        for spec in c38.set_specs(n):
            idx += 1
            if ctx.mine(idx):
                px_single(px, "PS", n, spec, rows=(idx // ctx.nshards) % 11 == 0)
        for spec in c38.dict_specs(n):
            if not px_dict_filter(spec):
                continue
            idx += 1
            if ctx.mine(idx):
                px_single(px, "PD", n, spec, rows=(idx // ctx.nshards) % 5 == 0)
    idx = assign_proxies(px, ctx, idx)
    ctx.count("exhaustive_proxy_done")
    flavours = ("PL", "PP", "PO", "PS", "PD")
    for k in range(nseq):
        if k >= 5 and not ctx.budget_ok():
            break
        px_sequence(px, flavours[k % len(flavours)], length, ctx.rng)
    px.dispose()


# --------------------------------------------------------------------------
# bulk replacement (attribute assignment) of proxies and ordering lists
# --------------------------------------------------------------------------
def _container(kind, values):
    if kind == "list":
        return list(values)
    if kind == "tuple":
        return tuple(values)
    if kind == "gen":
        return (v for v in list(values))
    if kind == "iter":
        return iter(list(values))
    if kind == "set":
        return set(values)
    if kind == "frozenset":
        return frozenset(values)
    raise AssertionError(kind)


def assign_proxies(px, ctx, idx):
    """``parent.proxy = <iterable>`` for every proxy flavour: the iterable keeps any subset of
    the current values, adds 0..2 fresh ones, repeats fresh and/or kept values, and comes as
    list / tuple / generator / iterator / set / frozenset / dict, as the proxy itself and as
    a copy of it.  Afterwards the proxy equals list(iterable) / set(iterable) /
    dict(mapping) (contents and len), removing one repeated value once behaves like the
    builtin, and the association rows match."""
    from sqlalchemy import orm

    attr = {"PL": "names", "PP": "kwnames", "PO": "kws", "PS": "tags", "PD": "vals"}
    for flavour in ("PL", "PP", "PO", "PS", "PD"):
        for n in range(0, 4):
            probe = px_fresh(px, flavour, n)
            fam = probe[4]
            ndistinct = len(list(dict.fromkeys(probe[2]))) if fam != "dict" else len(probe[2])
            containers = {"list": ("list", "tuple", "gen", "iter"),
                          "set": ("list", "tuple", "gen", "iter", "set", "frozenset"),
                          "dict": ("dict",)}[fam]
            combos = [(mask, nf, dup, cont) for mask in range(1 << ndistinct) for nf in range(3)
                      for dup in ("none", "fresh", "kept", "both") for cont in containers]
            combos += [(0, 0, "none", "self"), (0, 0, "none", "copy"), (0, 0, "none", "copy-reversed")]
            for mask, nf, dup, cont in combos:
                idx += 1
                if not ctx.mine(idx):
                    continue
                if fam == "dict" and dup != "none":
                    continue  # a mapping cannot repeat a key
                par, proxy, model, newval, fam = px_fresh(px, flavour, n)
                px.created = 0
                if fam == "dict":
                    keys = list(model)
                    new = {k: model[k] for i, k in enumerate(keys) if mask >> i & 1}
                    for i, k in enumerate(keys):
                        if mask >> i & 1 and i % 2:
                            new[k] = newval()  # kept key, new value
                    from vf.props.c38 import KEYS

                    for k in [k for k in KEYS if k not in model][:nf]:
                        new[k] = newval()
                    rhs, want = dict(new), dict(new)
                else:
                    distinct = list(dict.fromkeys(model))
                    kept = [v for i, v in enumerate(distinct) if mask >> i & 1]
                    fresh = [newval() for _ in range(nf)]
                    seq = kept + fresh
                    if dup in ("fresh", "both") and fresh:
                        seq = seq + [fresh[0]] + fresh[-1:]
                    if dup in ("kept", "both") and kept:
                        seq = [kept[-1]] + seq + [kept[0]]
                    if cont == "self":
                        rhs, seq = proxy, list(model)
                    elif cont == "copy":
                        rhs = seq = list(proxy)
                    elif cont == "copy-reversed":
                        seq = list(proxy)[::-1]
                        rhs = list(seq)
                    else:
                        rhs = _container(cont, seq)
                    want = set(seq) if fam == "set" else list(seq)
                    if fam == "list" and cont in ("set", "frozenset"):
                        continue
                desc = {"assign": flavour, "n": n, "mask": mask, "fresh": nf, "dup": dup, "container": cont}
                ctx.count("assign_cases")
                problem = None
                try:
                    setattr(par, attr[flavour], rhs)
                except Exception as e:
                    problem = "assignment raised %s: %s" % (type(e).__name__, str(e)[:80])
                if problem is None and not px_contents_same(fam, proxy, want):
                    problem = "builtin %r (len %d) vs proxy %r (len %d)" % (
                        want, len(want), px_contents(fam, proxy), len(proxy))
                if problem is None and fam != "dict" and dup != "none" and len(want):
                    # removing a repeated value once
                    v = seq[-1]
                    if fam == "set":
                        want.discard(v)
                        proxy.discard(v)
                    else:
                        want.remove(v)
                        proxy.remove(v)
                    if not px_contents_same(fam, proxy, want):
                        problem = "after removing %r once: builtin %r vs proxy %r" % (v, want, px_contents(fam, proxy))
                if problem:
                    mech = "assocproxy-%s-assign-contents" % fam
                    if fam == "set" and cont in ("gen", "iter"):
                        # _AssociationSet._bulk_replace walks the assigned iterable three times
                        mech = "assocproxy-set-assign-consumes-one-shot-iterable"
                    ctx.violation(mech,
                                  "%s = %s on %r: %s" % (attr[flavour], desc, model, problem),
                                  {"case": desc, "initial": repr(model), "problem": problem})
                elif (idx // ctx.nshards) % 2 == 0 or dup != "none":
                    with orm.Session(px.eng, expire_on_commit=False) as sess:
                        px_rows(px, sess, flavour, fam, par, want, desc)
                ctx.case(desc, nontrivial=True)
    return idx


def assign_ordering_lists(env, ctx, idx):
    """``slide.bullets = <iterable>``: any sub-sequence / permutation of the current members
    plus 0..2 fresh ones, as a list (relationship attributes reject other iterables by
    contract), the collection itself and a copy.  Contents equal list(iterable); a fresh member gets the position of its
    index, an existing one keeps its position unless reorder_on_append (documented);
    after reorder() positions equal indices and the order persists."""
    from sqlalchemy import orm

    for variant in env.variants:
        for n in range(0, 4):
            perms = []
            for mask in range(1 << n):
                kept = [i for i in range(n) if mask >> i & 1]
                perms.append(kept)
                if len(kept) > 1:
                    perms.append(kept[::-1])
            combos = [(kept, nf, where, cont) for kept in perms for nf in range(3)
                      for where in ("back", "front") for cont in ("list",)  # (a relationship accepts list-likes only)
                      if not (nf == 0 and where == "front")]
            combos += [(None, 0, "back", "self"), (None, 0, "back", "copy")]
            for kept, nf, where, cont in combos:
                idx += 1
                if not ctx.mine(idx):
                    continue
                slide, coll, model, mk, f = env.fresh(variant, n)
                old_pos = {id(b): b.position for b in model}
                if cont == "self":
                    rhs, seq = coll, list(model)
                elif cont == "copy":
                    rhs = seq = list(coll)
                else:
                    fresh = [mk() for _ in range(nf)]
                    seq = [model[i] for i in kept]
                    seq = fresh + seq if where == "front" else seq + fresh
                    rhs = _container(cont, seq)
                desc = {"assign": variant, "n": n, "kept": kept, "fresh": nf, "where": where, "container": cont}
                ctx.count("assign_cases")
                ctx.count("ol_cases")
                slide.bullets = rhs
                coll = slide.bullets
                roa = variant == "olr"
                problem = None
                if len(coll) != len(seq) or any(a is not b for a, b in zip(coll, seq)):
                    problem = "contents %r, assigned %r" % (list(coll), seq)
                else:
                    ctx.count("position_checks")
                    for i, b in enumerate(coll):
                        exp = f(i) if (roa or id(b) not in old_pos or cont == "self") else old_pos[id(b)]
                        if cont == "self":
                            exp = old_pos[id(b)]
                        if b.position != exp:
                            problem = "position of %r at index %d is %r, expected %r" % (b, i, b.position, exp)
                            break
                if problem is None:
                    coll.reorder()
                    if not positions_ok(coll, f):
                        problem = "after reorder(): %r" % (list(coll),)
                if problem:
                    ctx.violation("orderinglist-assign", "%s bullets = %s: %s" % (variant, desc, problem),
                                  {"case": desc, "problem": problem})
                elif (idx // ctx.nshards) % 3 == 0:
                    with orm.Session(env.eng, expire_on_commit=False) as sess:
                        ol_persist(env, sess, variant, slide, slide.bullets, f, desc)
                ctx.case(desc, nontrivial=True)
    return idx


def _px_slice_specs(ctx):
    """slice get/del/set for list proxies: bounds -4..4, steps None,1,2,-1 (quick) / all (thorough)."""
    vals = (None, -4, -3, -2, -1, 0, 1, 2, 3, 4)
    steps = (None, 1, 2, -1) if ctx.quick else (None, 1, 2, 3, -1, -2)
    for st, sp in itertools.product(vals, vals):
        for step in steps:
            d = [st, sp, step]
            yield ("getslice", d)
            yield ("delslice", d)
            for r in range(3):
                yield ("setslice", d, r, "list")
