"""C51 -- pickling and ext.serializer round trips preserve state and results.

Five parts, each repeated for pickle protocols 2..5 (``copy.deepcopy`` is NOT judged: the
property speaks of pickling only, and deep-copying an instrumented collection replays
appends that legitimately leave history behind), in ``cext`` and ``purepy`` modes (Row lives in ``engine/_row_cy``):

A. mapped objects (module-level classes of ``vf.gen.ormrig_gm``) in every lifecycle state
   - transient, pending, persistent clean / dirty / partially or fully expired / deferred
   unloaded / loaded under loader options that govern later lazy loads, detached.  After
   the round trip: equal loaded graph (``__dict__`` snapshot), equal state facts (identity
   key, expired attributes, unloaded set, modified flag, pending history), unattached;
   after ``Session.add`` into a second session the lifecycle state is persistent (had a
   key) or pending; then the *same* attribute accesses are performed on the original (in
   its own session) and on the copy, and both graphs must again be equal (so lazy loads,
   refreshes of expired attributes, deferred loads and loader options stored in the
   state behave identically); finally both are flushed and the DML streams recorded by
   the DBAPI spy must be equal (pending history survived).
B. Rows (Core and ORM rows, duplicate labels, NULLs, bytes): equal as tuples, equal
   ``_fields`` / string-keyed ``_mapping`` / attribute access / hash / comparison.
C. FrozenResult (``Result.freeze()``), Core and ORM: the thawed rows are equal; ORM frozen
   results still go through ``merge_frozen_result`` into a new session.
D. generated MetaData: same tables / columns / constraints / indexes, identical CREATE
   TABLE / CREATE INDEX DDL for the sqlite and postgresql dialects, same dependency order,
   and ``create_all`` works on a scratch database.
E. generated Core / ORM statements and legacy Query objects through
   ``ext.serializer.dumps/loads``: identical compiled SQL + parameters and identical
   execution results.  A second family runs over MetaData with schema-qualified tables
   (SQLite ATTACH; ``Table(schema=)`` and ``MetaData(schema=)``; with and without an
   unqualified table of the same name): SELECTs, joins, subqueries and INSERT / UPDATE /
   DELETE / INSERT..FROM SELECT whose effect on every table is compared inside a rolled
   back transaction; a ``loads(dumps(x))`` that raises is a violation.
   A third family sends aliased() / with_polymorphic() entities of every flag combination
   (name, flat, adapt_on_names, selectable derived from the mapped table / a foreign
   selectable / none, aliased=True) through the serializer inside statements and alone, and
   USES them afterwards: same SQL, same rows, same flags.
D2. "keep using it": MetaData with string ForeignKeys whose target is not declared (forward
   reference, removed target, schema-qualified, composite, typed / type-less referring
   column) is pickled; afterwards the same evolution (declare the targets, add tables,
   columns with further forward references, index / unique / check constraints) is applied
   to the copy and to a never-pickled twin; column types, resolved FK columns, dependency
   order, CREATE TABLE text, exceptions raised and a create_all + insert + select on SQLite
   must agree.
Part A also loads objects under the ``identity_token`` execution option: after the round
trip ``state.identity_token`` must equal ``key[2]``.

Guards: a pickled Row only keeps string keys (documented), so lookups by column object are
not tried on the copy; unpickled objects are never attached (documented); statement
results are compared under an explicit ORDER BY.
"""
from __future__ import annotations

META = {
    "id": "C51",
    "level": "exploration",
    "technique": "round trip through pickle protocols 2-5 / ext.serializer, then differential comparison of state snapshots, lazy-load behaviour, flush DML (DBAPI spy), DDL strings and execution results",
    "level_text": "Seeded generation of object states (8 lifecycle variants x 9 loader-option sets x edits), rows and frozen results of 12 statement shapes, random MetaData (2-5 tables, 11 column types, FKs, indexes, unique/check constraints, schemas) and statements (Core, ORM with options, Query); every artefact is round-tripped under every protocol and compared with the original by state, behaviour and execution.",
    "level_note": "SQLite only for execution; DDL equality is also checked on the postgresql dialect as strings. Custom user types / mutable extensions / association proxies inside pickles are not generated. with_loader_criteria lambdas are not picklable by design and are not generated.",
    "design_ref": "DESIGN.md section 4, C51",
    "rule": "case = (part, artefact descriptor, protocol); non-trivial = object graphs with >= 2 nodes or pending history or expired/unloaded attributes; rows with >= 2 columns; metadata with >= 1 foreign key; statements with >= 1 bind parameter; distinct by descriptor",
    "shards": {"quick": 4, "thorough": 8},
    "modes": ["cext", "purepy"],
    "soft_s": {"quick": 45, "thorough": 700},
    "exhaustive": {"quick": False, "thorough": False},
    "require": ["objects_roundtripped", "object_states_compared", "reattached", "lazy_accesses_compared",
                "flush_streams_compared", "rows_roundtripped", "frozen_roundtripped", "metadata_roundtripped",
                "ddl_strings_compared", "statements_roundtripped", "statement_results_compared",
                "history_preserved_cases", "expired_preserved_cases", "loader_option_cases",
                "schema_statements_roundtripped", "identity_token_cases", "aliased_statements_roundtripped",
                "aliased_entities_roundtripped", "aliased_entities_with_differing_flags",
                "metadata_evolved_after_roundtrip", "metadata_with_unresolved_string_fk"],
    "assumptions": ["two sessions on separate connections of one SQLite file see the same committed fixture"],
}

PROTOS = (2, 3, 4, 5)
OPTSETS = ("plain", "addresses", "profile", "bio", "load_only_name", "all", "addr_load_only_email",
           "addr_lazy_joined_user", "kw_selectin")
STATES = ("transient", "pending", "clean", "dirty", "expired_some", "expired_all", "detached", "detached_dirty")


def roundtrip(obj, proto):
    import copy
    import pickle

    if proto == "deepcopy":
        return copy.deepcopy(obj)
    return pickle.loads(pickle.dumps(obj, proto))


class Rig:
    def __init__(self, ctx):
        import sqlalchemy as sa
        from sqlalchemy import orm

        from vf.gen import ormrig_gm as rig
        from vf.mon import dbapi_spy

        self.ctx, self.sa, self.orm, self.rig = ctx, sa, orm, rig
        self.spy = dbapi_spy.Spy()
        self.path = ctx.tmppath(".db")
        self.engine = self.spy.engine(self.path, connect_kw={"timeout": 2})
        rig.zoo_populate(self.engine)
        self.n = 0

    def uniq(self, p):
        self.n += 1
        return "%s%d" % (p, self.n)

    def options(self, name):
        orm, M = self.orm, self.rig
        U, A = M.User, M.Address
        return {
            "plain": [],
            "addresses": [orm.selectinload(U.addresses)],
            "profile": [orm.joinedload(U.profile)],
            "bio": [orm.undefer(U.bio)],
            "load_only_name": [orm.load_only(U.name)],
            "all": [orm.selectinload(U.addresses), orm.selectinload(U.keywords), orm.joinedload(U.profile),
                    orm.undefer(U.bio)],
            "addr_load_only_email": [orm.defaultload(U.addresses).load_only(A.email)],
            "addr_lazy_joined_user": [orm.lazyload(U.addresses).joinedload(A.user)],
            "kw_selectin": [orm.selectinload(U.keywords), orm.defer(U.age)],
        }[name]

    def dml(self, mark):
        out = []
        for e in self.spy.since(mark, kinds=("execute", "executemany")):
            if e.sql.lstrip().split(None, 1)[0].upper() in ("INSERT", "UPDATE", "DELETE"):
                out.append((e.sql, repr(e.params)))
        return out


# --------------------------------------------------------------------------
# part A
# --------------------------------------------------------------------------
def make_object(R, spec, sess):
    sa, orm, M = R.sa, R.orm, R.rig
    st = spec["state"]
    if st in ("transient", "pending"):
        u = M.User(name=R.uniq("tn"), age=spec["k"] % 50)
        if spec["k"] % 2:
            u.addresses = [M.Address(email=R.uniq("te@")), M.Address(email=R.uniq("te@"))]
        if spec["k"] % 3 == 0:
            u.pos = M.Point(spec["k"] % 7, 1)
        if spec["k"] % 5 == 0:
            u.profile = M.Profile(motto=R.uniq("tm"))
        if st == "pending":
            sess.add(u)
        return u
    eo = {"identity_token": spec["token"]} if spec.get("token") else {}
    u = sess.scalars(sa.select(M.User).where(M.User.id == spec["rid"]).options(*R.options(spec["opts"])),
                     execution_options=eo).one()
    if spec.get("touch"):
        getattr(u, spec["touch"])
    if st in ("dirty", "detached_dirty"):
        for e in spec["edits"]:
            d = u.__dict__
            if e == "name":
                u.name = R.uniq("nm")
            elif e == "age" and "age" in d:
                u.age = (u.age or 0) + 1
            elif e == "addr_append" and "addresses" in d:
                u.addresses.append(M.Address(email=R.uniq("na@")))
            elif e == "addr_email" and d.get("addresses"):
                u.addresses[0].email = R.uniq("ed@")
            elif e == "addr_remove" and d.get("addresses"):
                u.addresses.pop()
            elif e == "pos" and "px" in d:
                u.pos = M.Point(8, R.n % 11)
            elif e == "profile_motto" and d.get("profile") is not None:
                u.profile.motto = R.uniq("pm")
    elif st == "expired_some":
        sess.expire(u, ["name", "age"] if spec["k"] % 2 else ["name", "addresses"])
    elif st == "expired_all":
        sess.expire(u)
    if st in ("detached", "detached_dirty"):
        sess.expunge_all()
    return u


ACCESS = ("name", "age", "bio", "pos", "addresses", "keywords", "profile", "addresses.user", "addresses.email")


def touch_all(obj, accesses):
    """perform attribute accesses (may lazy load); returns nothing"""
    for a in accesses:
        if "." in a:
            rel, sub = a.split(".")
            for x in getattr(obj, rel):
                getattr(x, sub)
        else:
            getattr(obj, a)


def part_a(R, n):
    ctx, sa, orm, M = R.ctx, R.sa, R.orm, R.rig
    rng = ctx.rng
    for k in range(n):
        if not ctx.budget_ok():
            break
        spec = {"part": "A", "k": k, "state": rng.choice(STATES), "rid": rng.choice([1, 2, 3]),
                "opts": rng.choice(OPTSETS), "touch": rng.choice([None, None, "addresses", "profile"]),
                "edits": rng.sample(["name", "age", "addr_append", "addr_email", "addr_remove", "pos", "profile_motto"],
                                    rng.randint(1, 3)),
                "proto": PROTOS[k % len(PROTOS)], "token": rng.choice([None, None, "shardA"]),
                "access": rng.sample(ACCESS, rng.randint(2, 5))}
        s1 = orm.Session(R.engine, autoflush=False)
        s2 = orm.Session(R.engine, autoflush=False)
        try:
            orig = make_object(R, spec, s1)
            nodes_o = M.graph_nodes(orig)
            snap_o = M.snapshot(nodes_o)
            facts_o = [M.state_facts(o) for o in nodes_o]
            copy_ = roundtrip(orig, spec["proto"])
            ctx.count("objects_roundtripped")
            desc = {k2: spec[k2] for k2 in ("state", "rid", "opts", "touch", "edits", "proto", "access", "token")}
            if spec["state"] in ("transient", "pending"):
                desc = {"state": spec["state"], "k": k % 30, "proto": spec["proto"]}

            def vio(mech, msg, extra=None):
                ctx.violation(mech, "%s :: %s" % (msg, desc), {"spec": spec, "detail": extra, "original": snap_o})

            if copy_ is orig:
                vio("roundtrip-returned-same-object", "copy is the original")
                continue
            nodes_c = M.graph_nodes(copy_)
            snap_c = M.snapshot(nodes_c)
            if snap_c != snap_o:
                vio("object-graph-differs-after-roundtrip", "loaded state differs", {"copy": snap_c})
                continue
            facts_c = [M.state_facts(o) for o in nodes_c]
            ctx.count("object_states_compared", len(nodes_c))
            bad = [(i, fo, fc) for i, (fo, fc) in enumerate(zip(facts_o, facts_c)) if fo != fc]
            if bad:
                i, fo, fc = bad[0]
                diff = sorted(k2 for k2 in fo if fo[k2] != fc[k2])
                vio("instance-state-%s-differs-after-roundtrip" % "-".join(diff)[:60],
                    "node %d (%s): %s" % (i, type(nodes_o[i]).__name__, {k2: (fo[k2], fc[k2]) for k2 in diff}))
                continue
            if any(sa.inspect(o).session is not None for o in nodes_c):
                vio("unpickled-object-attached", "copy is attached to a session")
                continue
            if any(f["committed_state"] for f in facts_o):
                ctx.count("history_preserved_cases")
            if any(f["expired_attributes"] for f in facts_o):
                ctx.count("expired_preserved_cases")
            if any(f["load_options"] for f in facts_o):
                ctx.count("loader_option_cases")
            if any(f["identity_token"] is not None for f in facts_o):
                ctx.count("identity_token_cases")
            tok_bad = [type(o).__name__ for o in nodes_c
                       if sa.inspect(o).key is not None and sa.inspect(o).identity_token != sa.inspect(o).key[2]]
            if tok_bad:
                vio("unpickled-identity-token-differs-from-key", "nodes %s: state.identity_token != key[2]" % tok_bad)
                continue
            nontriv = len(nodes_o) >= 2 or any(f["committed_state"] or f["expired_attributes"] or f["unloaded"] for f in facts_o)
            ctx.case(desc, nontrivial=nontriv)
            if k < 2:
                ctx.sample({"spec": desc, "snapshot": snap_o, "facts": facts_o[:2]})
            # ---- re-attachment -------------------------------------------------
            had_key = sa.inspect(orig).key is not None
            s2.add(copy_)
            ctx.count("reattached")
            stc = sa.inspect(copy_)
            if had_key and not stc.persistent:
                vio("reattached-copy-not-persistent", "copy of an object with identity is not persistent after add()")
                continue
            if not had_key and not stc.pending:
                vio("reattached-copy-not-pending", "copy of a keyless object is not pending after add()")
                continue
            if sa.inspect(orig).session is None:
                s1.add(orig)
            # ---- same accesses on both --------------------------------------
            if had_key:
                touch_all(orig, spec["access"])
                touch_all(copy_, spec["access"])
                ctx.count("lazy_accesses_compared", len(spec["access"]))
                so, sc = M.snapshot(M.graph_nodes(orig)), M.snapshot(M.graph_nodes(copy_))
                if so != sc:
                    first = next((i for i, (a, b) in enumerate(zip(so, sc)) if a != b), None)
                    vio("lazy-load-behaviour-differs-after-roundtrip",
                        "after accesses %s graphs differ at node %s" % (spec["access"], first),
                        {"original_after": so, "copy_after": sc})
                    continue
            # ---- flush streams ----------------------------------------------
            mark = R.spy.mark()
            s2.flush()
            dml_c = R.dml(mark)
            s2.rollback()
            mark = R.spy.mark()
            s1.flush()
            dml_o = R.dml(mark)
            s1.rollback()
            ctx.count("flush_streams_compared")
            if sorted(dml_c) != sorted(dml_o):
                vio("flush-dml-differs-after-roundtrip", "original flush %s, copy flush %s" % (dml_o[:3], dml_c[:3]))
        finally:
            s1.rollback()
            s2.rollback()
            s1.close()
            s2.close()


# --------------------------------------------------------------------------
# parts B, C
# --------------------------------------------------------------------------
def row_statements(R):
    sa, orm, M = R.sa, R.orm, R.rig
    U, A, K = M.User, M.Address, M.Keyword
    ut = U.__table__
    return [
        ("core_cols", sa.select(ut.c.id, ut.c.name, ut.c.age).order_by(ut.c.id)),
        ("core_labels", sa.select(ut.c.id.label("a"), ut.c.name.label("b"), (ut.c.age + 1).label("c")).order_by(ut.c.id)),
        ("core_dupe_names", sa.select(ut.c.id, A.__table__.c.id, A.__table__.c.email).join_from(ut, A.__table__).order_by(A.__table__.c.id)),
        ("core_literal_bytes", sa.select(sa.literal(b"\x00\xff", sa.LargeBinary).label("bin"), sa.literal(None, sa.Integer).label("nul"),
                                         sa.literal("x%y").label("s"), ut.c.id).order_by(ut.c.id)),
        ("core_one", sa.select(ut.c.name).order_by(ut.c.id)),
        ("core_func", sa.select(sa.func.count(ut.c.id).label("n"), sa.func.max(ut.c.age))),
        ("orm_entity", sa.select(U).order_by(U.id)),
        ("orm_entity_col", sa.select(U, A.email).join(U.addresses).order_by(A.id)),
        ("orm_two_entities", sa.select(U, A).join(U.addresses).order_by(A.id)),
        ("orm_cols", sa.select(U.id, U.name, A.email).join(U.addresses).order_by(A.id)),
        ("orm_entity_opts", sa.select(U).options(orm.selectinload(U.addresses)).order_by(U.id)),
        ("orm_bundle_free_kw", sa.select(K.id, K.word).order_by(K.id)),
    ]


def _materialise_composites(v):
    """The cached composite object in ``__dict__`` is derived state (rebuilt on access
    from its column attributes; Session.merge() drops it on purpose).  Rebuild it when
    all of its columns are loaded so that snapshots compare values, not cache presence."""
    import sqlalchemy as sa

    try:
        mapper = sa.inspect(v).mapper
    except Exception:
        return
    for comp in mapper.composites:
        if comp.key not in v.__dict__ and all(k in v.__dict__ for k in comp._attribute_keys):
            getattr(v, comp.key)


def norm_row(M, row):
    out = []
    for v in row:
        if hasattr(v, "_sa_instance_state"):
            _materialise_composites(v)
            out.append(("entity", M.snapshot(M.graph_nodes(v))))
        else:
            out.append(v)
    return out


def part_bc(R, reps):
    ctx, sa, orm, M = R.ctx, R.sa, R.orm, R.rig
    from sqlalchemy.orm import loading

    stmts = row_statements(R)
    for rep in range(reps):
        for name, stmt in stmts:
            if not ctx.budget_ok():
                return
            for proto in PROTOS:
                s = orm.Session(R.engine)
                try:
                    # ---- B: rows ---------------------------------------------
                    rows = s.execute(stmt).unique().all() if name.startswith("orm_entity_opts") else s.execute(stmt).all()
                    desc = {"part": "B", "stmt": name, "proto": proto}

                    def vio(mech, msg, extra=None):
                        ctx.violation(mech, "%s :: %s" % (msg, desc), {"desc": desc, "detail": extra})

                    copies = roundtrip(rows, proto)
                    single = roundtrip(rows[0], proto)
                    for row, c in list(zip(rows, copies)) + [(rows[0], single)]:
                        try:
                            ctx.count("rows_roundtripped")
                            if type(c) is not type(row):
                                vio("row-type-differs", "%s vs %s" % (type(c), type(row)))
                                break
                            if norm_row(M, c) != norm_row(M, row):
                                vio("row-values-differ-after-roundtrip", "%r vs %r" % (tuple(c), tuple(row)))
                                break
                            if c._fields != row._fields:
                                vio("row-fields-differ-after-roundtrip", "%r vs %r" % (c._fields, row._fields))
                                break
                            if list(c._mapping.keys()) != [k for k in row._fields] and list(c._mapping.keys()) != list(map(str, row._mapping.keys())):
                                vio("row-mapping-keys-differ-after-roundtrip", "%r vs %r" % (list(c._mapping.keys()), list(row._mapping.keys())))
                                break
                            plain = not any(hasattr(v, "_sa_instance_state") for v in row)
                            if plain:
                                if not (c == row) or (c != row) or hash(c) != hash(row):
                                    vio("row-equality-or-hash-differs-after-roundtrip", "%r vs %r" % (c, row))
                                    break
                                if c._asdict() != row._asdict():
                                    vio("row-asdict-differs-after-roundtrip", "%r vs %r" % (c._asdict(), row._asdict()))
                                    break
                                if len(set(row._fields)) == len(row._fields):
                                    for f in row._fields:
                                        if f.isidentifier() and getattr(c, f) != getattr(row, f):
                                            vio("row-attribute-access-differs-after-roundtrip", "field %s" % f)
                                            break
                                    for f in row._fields:
                                        if c._mapping[f] != row._mapping[f]:
                                            vio("row-mapping-access-differs-after-roundtrip", "field %s" % f)
                                            break
                        except Exception as e:   # using the copy must not fail where the original works
                            vio("row-use-raises-after-roundtrip", "%s: %s" % (type(e).__name__, e))
                            break
                    ctx.case(desc, nontrivial=len(rows[0]) >= 2)
                    # ---- C: frozen results ------------------------------------
                    s.expunge_all()
                    res = s.execute(stmt)
                    if name.startswith("orm_entity_opts"):
                        res = res.unique()
                    fr = res.freeze()
                    base = [norm_row(M, r) for r in fr().all()]
                    fr2 = roundtrip(fr, proto)
                    ctx.count("frozen_roundtripped")
                    got = [norm_row(M, r) for r in fr2().all()]
                    got_again = [norm_row(M, r) for r in fr2().all()]
                    desc = {"part": "C", "stmt": name, "proto": proto}
                    if got != base or got_again != base:
                        vio("frozen-result-rows-differ-after-roundtrip", "%r vs %r" % (got[:2], base[:2]))
                    elif name.startswith("orm_"):
                        s3 = orm.Session(R.engine)
                        try:
                            merged = loading.merge_frozen_result(s3, stmt, fr2, load=False)()
                            mrows = merged.all()
                            if [norm_row(M, r) for r in mrows] != base:
                                vio("frozen-result-merge-differs-after-roundtrip", "merged rows differ")
                            for r in mrows:
                                for v in r:
                                    if hasattr(v, "_sa_instance_state") and sa.inspect(v).session is not s3:
                                        vio("frozen-result-merge-not-attached", "merged entity not in the session")
                            ctx.count("frozen_merged")
                        finally:
                            s3.close()
                    ctx.case(desc, nontrivial=True)
                finally:
                    s.rollback()
                    s.close()


# --------------------------------------------------------------------------
# part D: MetaData
# --------------------------------------------------------------------------
def gen_metadata(sa, rng, k):
    import enum  # noqa

    md = sa.MetaData(schema=None)
    palette = [
        lambda: sa.Integer(), lambda: sa.String(rng.choice([10, 40, 200])), lambda: sa.Numeric(10, rng.choice([0, 2, 4])),
        lambda: sa.Boolean(), lambda: sa.DateTime(), lambda: sa.Text(), lambda: sa.LargeBinary(), lambda: sa.Float(),
        lambda: sa.Enum("a", "b", "c%d" % k, name="en%d" % rng.randint(0, 99)), lambda: sa.JSON(), lambda: sa.Date(),
        lambda: sa.BigInteger(), lambda: sa.Unicode(30), lambda: sa.Time(), lambda: sa.Uuid(),
    ]
    nt = rng.randint(2, 5)
    desc = []
    for i in range(nt):
        schema = rng.choice([None, None, None, "alt"])
        cols = [sa.Column("id", sa.Integer, primary_key=True)]
        if rng.random() < 0.3:
            cols.append(sa.Column("id2", sa.String(10), primary_key=True))
        nfk = 0
        for j in range(rng.randint(1, 5)):
            kw = {}
            if rng.random() < 0.3:
                kw["nullable"] = False
            if rng.random() < 0.25:
                kw["server_default"] = sa.text(rng.choice(["0", "'x'", "CURRENT_TIMESTAMP"]))
            if rng.random() < 0.2:
                kw["unique"] = True
            if rng.random() < 0.2:
                kw["index"] = True
            if rng.random() < 0.15:
                kw["comment"] = "c%d" % j
            if rng.random() < 0.15:
                kw["default"] = rng.choice([0, "d", None])
            cols.append(sa.Column("c%d" % j, rng.choice(palette)(), **kw))
        extra = []
        if i > 0 and rng.random() < 0.8:
            tgt = rng.choice(list(md.tables.values()))
            if len(tgt.primary_key.columns) == 1:
                cols.append(sa.Column("fk_%s" % tgt.name, sa.Integer,
                                      sa.ForeignKey(tgt.c.id, ondelete=rng.choice([None, "CASCADE", "SET NULL"]),
                                                    name=rng.choice([None, "fkname_%d" % i]))))
                nfk += 1
            else:
                cols.append(sa.Column("fa", sa.Integer))
                cols.append(sa.Column("fb", sa.String(10)))
                extra.append(sa.ForeignKeyConstraint(["fa", "fb"], [tgt.c.id, tgt.c.id2]))
                nfk += 1
        if rng.random() < 0.3:
            extra.append(sa.UniqueConstraint("id", "c0", name="uq_%d" % i))
        if rng.random() < 0.3:
            extra.append(sa.CheckConstraint("id > 0", name="ck_%d" % i))
        if rng.random() < 0.3:
            extra.append(sa.Index("ix_t%d_multi" % i, "id", "c0"))
        t = sa.Table("t%d" % i, md, *cols, *extra, schema=schema, comment=rng.choice([None, "tc"]),
                     info=rng.choice([{}, {"k": i}]))
        desc.append((t.fullname, [(c.name, repr(c.type)) for c in t.c], nfk))
    return md, desc


def md_facts(sa, md):
    from sqlalchemy.dialects import postgresql, sqlite
    from sqlalchemy.schema import CreateIndex, CreateTable

    out = {"order": [t.fullname for t in md.sorted_tables], "tables": {}}
    for t in md.sorted_tables:
        f = {"cols": [(c.name, repr(c.type), c.nullable, c.primary_key, c.unique, c.index, c.comment,
                       str(c.server_default.arg) if c.server_default is not None else None,
                       repr(getattr(c.default, "arg", None)),
                       sorted(fk.target_fullname for fk in c.foreign_keys)) for c in t.c],
             "pk": [c.name for c in t.primary_key.columns],
             "constraints": sorted((type(c).__name__, str(c.name), tuple(col.name for col in getattr(c, "columns", [])))
                                   for c in t.constraints),
             "indexes": sorted((str(ix.name), tuple(c.name for c in ix.columns), bool(ix.unique)) for ix in t.indexes),
             "fks": sorted((fk.parent.name, fk.target_fullname, str(fk.ondelete), str(fk.name)) for fk in t.foreign_keys),
             "comment": t.comment, "info": dict(t.info), "schema": t.schema,
             "ddl": {}}
        for dname, d in (("sqlite", sqlite.dialect()), ("postgresql", postgresql.dialect())):
            f["ddl"][dname] = [str(CreateTable(t).compile(dialect=d))] + sorted(
                str(CreateIndex(ix).compile(dialect=d)) for ix in t.indexes)
        out["tables"][t.fullname] = f
    return out


def part_d(R, n):
    ctx, sa = R.ctx, R.sa
    rng = ctx.rng
    for k in range(n):
        if not ctx.budget_ok():
            return
        md, desc = gen_metadata(sa, rng, k)
        base = md_facts(sa, md)
        for proto in PROTOS:
            md2 = roundtrip(md, proto)
            ctx.count("metadata_roundtripped")
            d = {"part": "D", "tables": desc, "proto": proto}
            got = md_facts(sa, md2)
            ctx.count("ddl_strings_compared", sum(len(x) for t in base["tables"].values() for x in t["ddl"].values()))
            if got != base:
                which = "order" if got["order"] != base["order"] else next(
                    (t, k2) for t in base["tables"] for k2 in base["tables"][t] if got["tables"].get(t, {}).get(k2) != base["tables"][t][k2])
                mech = "metadata-%s-differs-after-roundtrip" % (which if isinstance(which, str) else which[1])
                ctx.violation(mech, "metadata differs at %s :: proto=%s" % (which, proto),
                              {"desc": d, "which": which,
                               "base": base if isinstance(which, str) else base["tables"][which[0]][which[1]],
                               "got": got if isinstance(which, str) else got["tables"].get(which[0], {}).get(which[1])})
                continue
            # functional: tables of the default schema can be created from the copy
            e = sa.create_engine("sqlite://")
            try:
                with e.begin() as c:
                    c.exec_driver_sql("ATTACH DATABASE ':memory:' AS alt")
                    md2.create_all(c)
                    names = set(sa.inspect(c).get_table_names()) | {"alt." + n2 for n2 in sa.inspect(c).get_table_names(schema="alt")}
                if names != set(base["order"]):
                    ctx.violation("metadata-copy-create-all-differs", "created %s expected %s" % (sorted(names), base["order"]), d)
            finally:
                e.dispose()
            ctx.case({"part": "D", "tables": desc}, nontrivial=any(x[2] for x in desc))
        if k == 0:
            ctx.sample({"part": "D", "tables": desc})


# --------------------------------------------------------------------------
# part E: statements through ext.serializer
# --------------------------------------------------------------------------
def gen_statements(R, rng):
    sa, orm, M = R.sa, R.orm, R.rig
    U, A, K, P = M.User, M.Address, M.Keyword, M.Profile
    ut, at = U.__table__, A.__table__
    v = rng.choice([0, 1, 2, 30, 33])
    pat = rng.choice(["a1%", "%@x", "zz%", "a1_@x"])
    ids = rng.sample([1, 2, 3, 4, 11, 12, 13], rng.randint(0, 3))
    out = [
        ("core_where", "core", sa.select(ut.c.id, ut.c.name).where(ut.c.id > v).order_by(ut.c.id)),
        ("core_join_like", "core", sa.select(ut.c.name, at.c.email).join_from(ut, at).where(at.c.email.like(pat)).order_by(at.c.id)),
        ("core_in", "core", sa.select(at.c.id).where(at.c.id.in_(ids)).order_by(at.c.id)),
        ("core_bindparam", "core", sa.select(ut.c.id).where(ut.c.age >= sa.bindparam("minage", v)).order_by(ut.c.id)),
        ("core_case_func", "core", sa.select(ut.c.id, sa.case((ut.c.age > 31, "old"), else_="young").label("k"),
                                             sa.func.coalesce(ut.c.age, -1)).order_by(ut.c.id)),
        ("core_subquery", "core", sa.select(ut.c.name).where(ut.c.id.in_(sa.select(at.c.user_id).where(at.c.id > 10 + v % 3))).order_by(ut.c.id)),
        ("core_exists", "core", sa.select(ut.c.id).where(sa.exists().where(at.c.user_id == ut.c.id)).order_by(ut.c.id)),
        ("core_union", "core", sa.union(sa.select(ut.c.id).where(ut.c.id == 1), sa.select(at.c.user_id).where(at.c.id == 13)).order_by("id")),
        ("core_group", "core", sa.select(at.c.user_id, sa.func.count().label("n")).group_by(at.c.user_id).having(sa.func.count() > v % 2).order_by(at.c.user_id)),
        ("core_limit", "core", sa.select(at.c.id).order_by(at.c.id.desc()).limit(1 + v % 3).offset(v % 2)),
        ("orm_select", "orm", sa.select(U).where(U.id >= 1 + v % 3).order_by(U.id)),
        ("orm_join_opts", "orm", sa.select(U).join(U.addresses).where(A.email.like(pat)).order_by(U.id).options(orm.selectinload(U.keywords)).distinct()),
        ("orm_joinedload", "orm", sa.select(U).options(orm.joinedload(U.addresses), orm.undefer(U.bio)).order_by(U.id)),
        ("orm_load_only", "orm", sa.select(U).options(orm.load_only(U.name), orm.defaultload(U.addresses).load_only(A.email)).order_by(U.id)),
        ("orm_cols", "core", sa.select(U.name, A.email).join(A, U.addresses).where(U.id.in_(ids or [1])).order_by(A.id)),
        ("orm_aliased", "orm", None),
        ("orm_relationship_crit", "orm", sa.select(A).where(A.user.has(U.name == "u%d" % (1 + v % 3))).order_by(A.id)),
        ("orm_m2m_any", "orm", sa.select(U).where(U.keywords.any(K.word == "k%d" % (1 + v % 4))).order_by(U.id)),
    ]
    ua = orm.aliased(U, name="ua")
    out[15] = ("orm_aliased", "orm", sa.select(ua).where(ua.id != v).order_by(ua.id))
    return out, {"v": v, "pat": pat, "ids": ids}


def part_e(R, n):
    ctx, sa, orm, M = R.ctx, R.sa, R.orm, R.rig
    from sqlalchemy.ext import serializer

    rng = ctx.rng
    md = M.BaseM.metadata
    for k in range(n):
        stmts, params = gen_statements(R, rng)
        for name, kind, stmt in stmts:
            if not ctx.budget_ok():
                return
            proto = PROTOS[(k + len(name)) % len(PROTOS)]
            s = orm.Session(R.engine)
            s2 = orm.Session(R.engine)
            try:
                desc = {"part": "E", "stmt": name, "params": params, "proto": proto}

                def vio(mech, msg, extra=None):
                    ctx.violation(mech, "%s :: %s" % (msg, desc), {"desc": desc, "detail": extra})

                data = serializer.dumps(stmt, proto)
                st2 = serializer.loads(data, md, lambda: s2)
                ctx.count("statements_roundtripped")
                c1 = stmt.compile(R.engine)
                c2 = st2.compile(R.engine)
                if str(c1) != str(c2) or c1.params != c2.params:
                    vio("statement-sql-differs-after-serializer-roundtrip", "%s / %s vs %s / %s" % (str(c1)[:200], c1.params, str(c2)[:200], c2.params))
                    continue

                def run_(sess, st):
                    res = sess.execute(st)
                    if kind == "orm":
                        objs = res.unique().scalars().all()
                        out = []
                        for o in objs:
                            out.append((sa.inspect(o).key[1], M.snapshot(M.graph_nodes(o))))
                        return out
                    return [tuple(r) for r in res.all()]

                r1 = run_(s, stmt)
                r2 = run_(s2, st2)
                ctx.count("statement_results_compared")
                if r1 != r2:
                    vio("statement-results-differ-after-serializer-roundtrip", "%r vs %r" % (r1[:3], r2[:3]))
                ctx.case(desc, nontrivial=bool(c1.params))
                # legacy Query bound to a session
                if kind == "orm" and name in ("orm_select", "orm_m2m_any"):
                    q = s.query(M.User).filter(M.User.id >= 1 + params["v"] % 3).order_by(M.User.id)
                    q2 = serializer.loads(serializer.dumps(q, proto), md, lambda: s2)
                    ctx.count("queries_roundtripped")
                    if q2.session is not s2:
                        vio("query-session-not-restored", "deserialized Query is bound to %r" % (q2.session,))
                    elif [u.id for u in q2.all()] != [u.id for u in q.all()]:
                        vio("query-results-differ-after-serializer-roundtrip", "query results differ")
            finally:
                s.rollback()
                s2.rollback()
                s.close()
                s2.close()
        if k == 0:
            ctx.sample({"part": "E", "names": [x[0] for x in stmts], "params": params})


def schema_statements(sa, tabs, rng):
    """statements whose FROM / target elements are schema-qualified Table objects"""
    qi, qs, up = tabs["q_item"], tabs["q_solo"], tabs["u_plain"]
    ui = tabs.get("u_item")
    v = rng.choice([0, 1, 2, 3])
    out = [
        ("q_select_table", "select", sa.select(qi).order_by(qi.c.id)),
        ("q_select_cols_where", "select", sa.select(qi.c.name, qi.c.qty).where(qi.c.id > v).order_by(qi.c.id)),
        ("q_join_fk", "select", sa.select(qs.c.tag, qi.c.name).select_from(qs.join(qi)).order_by(qs.c.id)),
        ("q_exists", "select", sa.select(qi.c.id).where(sa.exists().where(qs.c.item_id == qi.c.id)).order_by(qi.c.id)),
        ("q_subquery", "select", sa.select(sa.func.count()).select_from(sa.select(qs).where(qs.c.id >= v).subquery())),
        ("q_alias", "select", sa.select(qi.alias("a1").c.name).order_by(sa.text("1"))),
        ("q_with_plain", "select", sa.select(up.c.tag, qi.c.name).join_from(up, qi, up.c.id == qi.c.id).order_by(up.c.id)),
        ("q_update", "dml", sa.update(qi).where(qi.c.id == 1 + v % 4).values(name="upd", qty=qi.c.qty + 1)),
        ("q_delete", "dml", sa.delete(qs).where(qs.c.id > v)),
        ("q_insert", "dml", sa.insert(qi).values(id=90 + v, name="ins", qty=v)),
        ("q_insert_from_select", "dml", sa.insert(qs).from_select(["id", "item_id", "tag"], sa.select(qi.c.id + 50, qi.c.id, qi.c.name).where(qi.c.id <= 1 + v))),
    ]
    if ui is not None:
        out += [
            ("twin_unqualified", "select", sa.select(ui).order_by(ui.c.id)),
            ("twin_both_join", "select", sa.select(ui.c.name, qi.c.name).join_from(ui, qi, ui.c.id == qi.c.id).order_by(ui.c.id)),
            ("twin_union", "select", sa.union_all(sa.select(ui.c.id, ui.c.name), sa.select(qi.c.id, qi.c.name)).order_by("id", "name")),
            ("twin_copy", "dml", sa.insert(ui).from_select(["id", "name", "qty"], sa.select(qi.c.id + 100, qi.c.name, qi.c.qty))),
            ("twin_update_unqualified", "dml", sa.update(ui).where(ui.c.id == 1).values(name="upd-main")),
        ]
    return out, v


def part_e_schemas(R, n):
    """ext.serializer over MetaData that contains schema-qualified tables (SQLite ATTACH),
    with and without an unqualified twin of the same name, Table(schema=) and
    MetaData(schema=) flavours; SELECT results and DML effects are compared."""
    ctx, sa, M = R.ctx, R.sa, R.rig
    from sqlalchemy import event
    from sqlalchemy.ext import serializer

    rng = ctx.rng
    for k in range(n):
        for twin in (True, False):
            for default_schema in (False, True):
                main, alt = ctx.tmppath(".db"), ctx.tmppath(".db")
                eng = sa.create_engine("sqlite:///" + main)

                @event.listens_for(eng, "connect")
                def _attach(dbapi_con, rec, alt=alt):
                    dbapi_con.execute("ATTACH DATABASE '%s' AS alt" % alt)

                try:
                    tabs = M.schema_metadata(twin, default_schema)
                    md = tabs["md"]
                    with eng.begin() as c:
                        md.create_all(c)
                        M.schema_populate(c, tabs)
                    stmts, v = schema_statements(sa, tabs, rng)
                    dump_all = [sa.select(t).order_by(*t.primary_key.columns) for t in md.sorted_tables]
                    for name, kind, stmt in stmts:
                        if not ctx.budget_ok():
                            return
                        proto = PROTOS[(k + len(name)) % len(PROTOS)]
                        desc = {"part": "E-schema", "stmt": name, "twin": twin, "metadata_schema": default_schema, "v": v, "proto": proto}

                        def vio(mech, msg, extra=None):
                            ctx.violation(mech, "%s :: %s" % (msg, desc), {"desc": desc, "detail": extra})

                        ctx.count("schema_statements_roundtripped")
                        try:
                            st2 = serializer.loads(serializer.dumps(stmt, proto), md, None, eng)
                        except Exception as e:   # the round trip must yield a statement
                            vio("serializer-roundtrip-raises-%s" % type(e).__name__, "loads(dumps(stmt)) raised %s: %s" % (type(e).__name__, e))
                            continue
                        c1, c2 = stmt.compile(eng), st2.compile(eng)
                        if str(c1) != str(c2) or c1.params != c2.params:
                            vio("statement-sql-differs-after-serializer-roundtrip", "%s / %s vs %s / %s" % (str(c1)[:200], c1.params, str(c2)[:200], c2.params))
                            continue

                        def effect(st):
                            with eng.connect() as c:
                                tr = c.begin()
                                try:
                                    res = c.execute(st)
                                    if kind == "select":
                                        return [tuple(r) for r in res.all()]
                                    return [[tuple(r) for r in c.execute(d).all()] for d in dump_all]
                                finally:
                                    tr.rollback()

                        r1, r2 = effect(stmt), effect(st2)
                        ctx.count("statement_results_compared")
                        if r1 != r2:
                            vio("statement-results-differ-after-serializer-roundtrip", "%r vs %r" % (r1[:3], r2[:3]))
                        ctx.case(desc, nontrivial=True)
                finally:
                    eng.dispose()


def aliased_entities(R, rng):
    """aliased() / with_polymorphic() constructions over every flag combination"""
    sa, orm, M = R.sa, R.orm, R.rig
    U, A, ut, arch = M.User, M.Address, M.User.__table__, M.user_arch
    v = rng.choice([0, 1, 2])
    out = []
    for name in (None, "ua"):
        for flat in (False, True):
            out.append(("plain name=%s flat=%s" % (name, flat), lambda name=name, flat=flat: orm.aliased(U, name=name, flat=flat)))
    for adapt in (False, True):
        out.append(("derived-subquery adapt_on_names=%s" % adapt,
                    lambda adapt=adapt: orm.aliased(U, sa.select(ut).where(ut.c.id > v).subquery(), adapt_on_names=adapt)))
        out.append(("table-alias adapt_on_names=%s" % adapt,
                    lambda adapt=adapt: orm.aliased(U, ut.alias("t1"), adapt_on_names=adapt, name="viaalias")))
    # selectables NOT derived from the mapped table: only adapt_on_names=True can map them
    out.append(("foreign-subquery adapt_on_names=True",
                lambda: orm.aliased(U, sa.select(arch).where(arch.c.id >= v).subquery(), adapt_on_names=True)))
    out.append(("foreign-table-alias adapt_on_names=True name",
                lambda: orm.aliased(U, arch.alias("ar"), adapt_on_names=True, name="fromarch")))
    out.append(("foreign-labelled-subquery adapt_on_names=True",
                lambda: orm.aliased(U, sa.select(arch.c.id, arch.c.name, arch.c.age, arch.c.bio, arch.c.px, arch.c.py)
                                    .order_by(arch.c.id).limit(5).subquery("lim"), adapt_on_names=True)))
    for flat in (False, True):
        out.append(("aliased-subclass flat=%s" % flat, lambda flat=flat: orm.aliased(M.Eng, flat=flat, name="ef")))
        for classes in ("*", [M.Eng], [M.Eng, M.Mgr]):
            cname = classes if classes == "*" else "+".join(c.__name__ for c in classes)
            out.append(("with_polymorphic %s flat=%s" % (cname, flat),
                        lambda classes=classes, flat=flat: orm.with_polymorphic(M.Emp, classes, flat=flat)))
    out.append(("with_polymorphic aliased=True", lambda: orm.with_polymorphic(M.Emp, "*", aliased=True)))
    out.append(("with_polymorphic selectable",
                lambda: orm.with_polymorphic(M.Emp, [M.Eng], M.Emp.__table__.outerjoin(M.Eng.__table__))))
    out.append(("with_polymorphic selectable aliased",
                lambda: orm.with_polymorphic(M.Emp, [M.Eng, M.Mgr], M.Emp.__table__.outerjoin(M.Eng.__table__).outerjoin(M.Mgr.__table__), aliased=True)))
    return out


def part_e_aliased(R, n):
    """aliased entities inside statements (and on their own) through ext.serializer, then USED:
    same SQL, same rows as before the round trip"""
    ctx, sa, orm, M = R.ctx, R.sa, R.orm, R.rig
    from sqlalchemy.ext import serializer

    rng = ctx.rng
    md = M.BaseM.metadata
    for k in range(n):
        for name, make in aliased_entities(R, rng):
            if not ctx.budget_ok():
                return
            proto = PROTOS[(k + len(name)) % len(PROTOS)]
            desc = {"part": "E-aliased", "entity": name, "proto": proto}

            def vio(mech, msg, extra=None):
                ctx.violation(mech, "%s :: %s" % (msg, desc), {"desc": desc, "detail": extra})

            s, s2 = orm.Session(R.engine), orm.Session(R.engine)
            try:
                ent = make()
                insp = sa.inspect(ent)
                flags = (bool(insp._adapt_on_names), bool(insp._use_mapper_path))
                if flags[0] != flags[1]:
                    ctx.count("aliased_entities_with_differing_flags")
                # category of the construction, part of the mechanism name
                cat = ("adapt-on-names" if insp._adapt_on_names else
                       "with-polymorphic" if name.startswith("with_polymorphic") else
                       "selectable-alias" if "derived" in name or "table-alias" in name else "plain-alias")
                stmts = [("select", sa.select(ent).order_by(ent.id)),
                         ("where", sa.select(ent.id, ent.name).where(ent.name.is_not(None)).order_by(ent.id))]
                if insp.mapper.class_ is M.User:
                    stmts.append(("join", sa.select(ent.name, M.Address.email).join(M.Address, M.Address.user_id == ent.id).order_by(M.Address.id)))
                    stmts.append(("relationship-join", sa.select(ent).join(ent.addresses).order_by(ent.id).distinct()))
                if hasattr(ent, "Eng"):
                    # attributes of a sub-entity of the polymorphic selectable
                    stmts.append(("subclass-column", sa.select(ent.id, ent.Eng.lang).order_by(ent.id)))
                    stmts.append(("subclass-criteria", sa.select(ent.id, ent.name).where(ent.Eng.lang == "py").order_by(ent.id)))
                    stmts.append(("subclass-criteria-entity", sa.select(ent).where(ent.Eng.lang.is_not(None)).order_by(ent.id)))

                def run_(sess, st, kind_):
                    res = sess.execute(st)
                    if kind_ in ("select", "relationship-join", "subclass-criteria-entity"):
                        return [(type(o).__name__, sa.inspect(o).key[1], M.snapshot(M.graph_nodes(o))) for o in res.unique().scalars().all()]
                    return [tuple(r) for r in res.all()]

                for kind_, st in stmts:
                    ctx.count("aliased_statements_roundtripped")
                    try:
                        st2 = serializer.loads(serializer.dumps(st, proto), md, lambda: s2)
                    except Exception as e:
                        vio("serializer-roundtrip-raises-%s" % type(e).__name__, "%s: %s" % (kind_, e))
                        continue
                    c1, c2 = st.compile(R.engine), st2.compile(R.engine)
                    if str(c1) != str(c2) or c1.params != c2.params:
                        # the property speaks of equal RESULTS; a different but equivalent FROM list
                        # is only counted (guard), the rows decide
                        ctx.count("aliased_statement_sql_text_differs")
                    try:
                        r1 = run_(s, st, kind_)
                    except Exception as e:
                        # the construction itself is not executable (e.g. a relationship join
                        # from a foreign selectable): nothing to compare -- guard
                        s.rollback()
                        ctx.count("aliased_statement_not_executable_originally")
                        ctx.seen("not_executable", "%s/%s/%s" % (name, kind_, type(e).__name__))
                        continue
                    try:
                        r2 = run_(s2, st2, kind_)
                    except Exception as e:
                        s2.rollback()
                        vio("aliased-statement-fails-after-serializer-roundtrip", "%s: %s: %s" % (kind_, type(e).__name__, str(e)[:200]))
                        continue
                    s.expunge_all()
                    s2.expunge_all()
                    if r1 != r2:
                        vio("%s-statement-results-differ-after-serializer-roundtrip" % cat,
                            "%s: %r vs %r :: %s  ->  %s" % (kind_, r1[:3], r2[:3], str(c1).replace("\n", " ")[:200], str(c2).replace("\n", " ")[:200]))
                # the entity itself, then used in a new statement
                ent2 = serializer.loads(serializer.dumps(ent, proto), md, lambda: s2)
                insp2 = sa.inspect(ent2)
                flags2 = (bool(insp2._adapt_on_names), bool(insp2._use_mapper_path))
                st, st2 = sa.select(ent).order_by(ent.id), sa.select(ent2).order_by(ent2.id)
                try:
                    r1 = run_(s, st, "select")
                except Exception:
                    s.rollback()
                    ctx.count("aliased_statement_not_executable_originally")
                    continue
                try:
                    r2 = run_(s2, st2, "select")
                except Exception as e:
                    s2.rollback()
                    vio("aliased-statement-fails-after-serializer-roundtrip", "entity: %s: %s" % (type(e).__name__, str(e)[:200]))
                    continue
                ctx.count("aliased_entities_roundtripped")
                if r1 != r2 or flags != flags2 or insp2.name != insp.name:
                    vio("%s-entity-behaves-differently-after-serializer-roundtrip" % cat,
                        "flags %s -> %s, name %s -> %s, rows %r vs %r" % (flags, flags2, insp.name, insp2.name, r1[:2], r2[:2]))
                ctx.case(desc, nontrivial=True)
            finally:
                s.rollback()
                s2.rollback()
                s.close()
                s2.close()


# --------------------------------------------------------------------------
# part D2: keep USING a MetaData after the round trip (schema evolution)
# --------------------------------------------------------------------------
def evolving_spec(rng, k):
    """pure data: a MetaData with forward references / removed targets, and what is declared
    AFTER the round trip"""
    types = ["Integer", "BigInteger", "String20", "Numeric"]
    spec = {"k": k, "children": [], "post_tables": [], "post_columns": [], "post_extras": []}
    for i in range(rng.randint(1, 3)):
        spec["children"].append({
            "name": "child%d" % i,
            "typed": rng.random() < 0.4,                  # referring column declared with / without a type
            "target": "parent%d" % rng.randint(0, 1),
            "target_schema": rng.choice([None, None, "alt"]),
            "mode": rng.choice(["forward", "forward", "removed", "present"]),
            "composite": rng.random() < 0.3,
            "fk_name": rng.choice([None, "fk_named_%d" % i]),
        })
    spec["parent_types"] = [rng.choice(types), rng.choice(types)]
    spec["post_tables"] = [{"name": "late%d" % i, "refs": rng.choice(["child0", "parent0", "later_still"])}
                           for i in range(rng.randint(0, 2))]
    spec["post_columns"] = [{"table": "child0", "name": "extra%d" % i, "fk": rng.choice([None, "parent1.id", "unborn.id"])}
                            for i in range(rng.randint(0, 2))]
    spec["post_extras"] = rng.sample(["index", "unique", "check"], rng.randint(0, 3))
    return spec


def _etype(sa, name):
    return {"Integer": sa.Integer, "BigInteger": sa.BigInteger, "String20": lambda: sa.String(20),
            "Numeric": lambda: sa.Numeric(12, 2)}[name]()


def _parent(sa, md, name, schema, tname):
    return sa.Table(name, md, sa.Column("id", _etype(sa, tname), primary_key=True),
                    sa.Column("id2", sa.String(10), primary_key=True), sa.Column("label", sa.String(20)),
                    schema=schema, extend_existing=True)


def build_evolving(sa, spec):
    md = sa.MetaData()
    for ch in spec["children"]:
        tkey = ("%s." % ch["target_schema"] if ch["target_schema"] else "") + ch["target"]
        pidx = int(ch["target"][-1])
        if ch["mode"] in ("present", "removed") and tkey not in md.tables:
            _parent(sa, md, ch["target"], ch["target_schema"], spec["parent_types"][pidx])
        cols = [sa.Column("id", sa.Integer, primary_key=True), sa.Column("v", sa.String(10))]
        extra = []
        if ch["composite"]:
            cols += [sa.Column("pa"), sa.Column("pb")] if not ch["typed"] else [
                sa.Column("pa", _etype(sa, spec["parent_types"][pidx])), sa.Column("pb", sa.String(10))]
            extra.append(sa.ForeignKeyConstraint(["pa", "pb"], [tkey + ".id", tkey + ".id2"], name=ch["fk_name"]))
        else:
            fk = sa.ForeignKey(tkey + ".id", name=ch["fk_name"])
            cols.append(sa.Column("parent_id", _etype(sa, spec["parent_types"][pidx]), fk) if ch["typed"]
                        else sa.Column("parent_id", fk))
        sa.Table(ch["name"], md, *cols, *extra)
    for ch in spec["children"]:
        tkey = ("%s." % ch["target_schema"] if ch["target_schema"] else "") + ch["target"]
        if ch["mode"] == "removed" and tkey in md.tables and not any(
                c2["mode"] == "present" and c2["target"] == ch["target"] and c2["target_schema"] == ch["target_schema"]
                for c2 in spec["children"]):
            md.remove(md.tables[tkey])
    return md


def evolve(sa, md, spec):
    """what the application does with the MetaData afterwards: declare the missing targets,
    add tables / columns / constraints; returns the exceptions raised on the way (type names)"""
    errors = []

    def step(fn):
        try:
            fn()
        except Exception as e:
            errors.append(type(e).__name__)

    for ch in spec["children"]:
        tkey = ("%s." % ch["target_schema"] if ch["target_schema"] else "") + ch["target"]
        if tkey not in md.tables:
            step(lambda ch=ch: _parent(sa, md, ch["target"], ch["target_schema"], spec["parent_types"][int(ch["target"][-1])]))
    for pt in spec["post_tables"]:
        step(lambda pt=pt: sa.Table(pt["name"], md, sa.Column("id", sa.Integer, primary_key=True),
                                    sa.Column("ref", sa.ForeignKey(pt["refs"] + ".id"))))
    for pc in spec["post_columns"]:
        if pc["table"] in md.tables:
            step(lambda pc=pc: md.tables[pc["table"]].append_column(
                sa.Column(pc["name"], sa.ForeignKey(pc["fk"])) if pc["fk"] else sa.Column(pc["name"], sa.Integer)))
    t = md.tables.get("child0")
    if t is not None:
        if "index" in spec["post_extras"]:
            step(lambda: sa.Index("ix_child0_v", t.c.v))
        if "unique" in spec["post_extras"]:
            step(lambda: t.append_constraint(sa.UniqueConstraint("v", "id", name="uq_child0")))
        if "check" in spec["post_extras"]:
            step(lambda: t.append_constraint(sa.CheckConstraint("id > 0", name="ck_child0")))
    if any(pt["refs"] == "later_still" for pt in spec["post_tables"]):
        step(lambda: sa.Table("later_still", md, sa.Column("id", sa.BigInteger, primary_key=True)))
    if any(pc["fk"] == "unborn.id" for pc in spec["post_columns"]):
        step(lambda: sa.Table("unborn", md, sa.Column("id", sa.String(20), primary_key=True)))
    return errors


def evolved_facts(sa, md, functional_too=True):
    """tolerant facts: every derived artefact, or the name of the exception producing it raises"""
    from sqlalchemy.dialects import sqlite
    from sqlalchemy.schema import CreateIndex, CreateTable

    def safe(fn):
        try:
            return fn()
        except Exception as e:
            return "raises:" + type(e).__name__

    out = {"order": safe(lambda: [t.fullname for t in md.sorted_tables]), "tables": {}}
    for key in sorted(md.tables):
        t = md.tables[key]
        out["tables"][key] = {
            "cols": [(c.name, repr(c.type), c.nullable, c.primary_key) for c in t.c],
            "fks": sorted((fk.parent.name, safe(lambda fk=fk: fk.target_fullname), safe(lambda fk=fk: str(fk.column)),
                           safe(lambda fk=fk: repr(fk.column.type)), str(fk.name)) for fk in t.foreign_keys),
            "constraints": sorted((type(c).__name__, str(c.name), tuple(col.name for col in getattr(c, "columns", [])),
                                   safe(lambda c=c: getattr(c, "referred_table", None) is not None and c.referred_table.fullname))
                                  for c in t.constraints),
            "indexes": sorted((str(ix.name), tuple(c.name for c in ix.columns)) for ix in t.indexes),
            "ddl": safe(lambda: [str(CreateTable(t).compile(dialect=sqlite.dialect()))] + sorted(
                str(CreateIndex(ix).compile(dialect=sqlite.dialect())) for ix in t.indexes)),
        }
    # functional: create everything on SQLite (schema alt ATTACHed), insert a parent/child pair, read back
    def functional():
        e = sa.create_engine("sqlite://")
        try:
            with e.begin() as c:
                c.exec_driver_sql("ATTACH DATABASE ':memory:' AS alt")
                md.create_all(c)
                res = []
                for t in md.sorted_tables:
                    vals = {}
                    for col in t.c:
                        vals[col.name] = "1" if isinstance(col.type, sa.String) else 1
                    c.execute(t.insert().values(**vals))
                    res.append((t.fullname, [tuple(map(str, r)) for r in c.execute(sa.select(t)).all()]))
                return res
        finally:
            e.dispose()

    if functional_too:
        out["functional"] = safe(functional)
    return out


def part_d_evolve(R, n):
    ctx, sa = R.ctx, R.sa
    rng = ctx.rng
    for k in range(n):
        if not ctx.budget_ok():
            return
        spec = evolving_spec(rng, k)
        for proto in PROTOS:
            twin = build_evolving(sa, spec)         # never pickled
            copy_ = roundtrip(build_evolving(sa, spec), proto)
            ctx.count("metadata_evolved_after_roundtrip")
            if any(ch["mode"] in ("forward", "removed") for ch in spec["children"]):
                ctx.count("metadata_with_unresolved_string_fk")
            d = {"part": "D-evolve", "spec": spec, "proto": proto}
            before_t, before_c = evolved_facts(sa, twin, False), evolved_facts(sa, copy_, False)
            err_t, err_c = evolve(sa, twin, spec), evolve(sa, copy_, spec)
            after_t, after_c = evolved_facts(sa, twin), evolved_facts(sa, copy_)
            for stage, ft, fc in (("before-evolution", before_t, before_c), ("after-evolution", after_t, after_c)):
                if ft != fc:
                    if ft["order"] != fc["order"]:
                        which = "dependency-order"
                    elif ft.get("functional") != fc.get("functional") and ft["tables"] == fc["tables"]:
                        which = "create-insert-select"
                    else:
                        tk = next(t for t in ft["tables"] if fc["tables"].get(t) != ft["tables"][t])
                        which = next(k2 for k2 in ft["tables"][tk] if fc["tables"].get(tk, {}).get(k2) != ft["tables"][tk][k2])
                    ctx.violation("unpickled-metadata-%s-differs-from-twin-%s" % (which, stage),
                                  "proto=%s spec=%s" % (proto, spec),
                                  {"desc": d, "twin": ft if which in ("dependency-order", "create-insert-select") else ft["tables"].get(tk),
                                   "copy": fc if which in ("dependency-order", "create-insert-select") else fc["tables"].get(tk)})
                    break
            else:
                if err_t != err_c:
                    ctx.violation("unpickled-metadata-evolution-raises-differently", "twin %s copy %s" % (err_t, err_c), d)
            ctx.case({"part": "D-evolve", "spec": spec}, nontrivial=True)
        if k == 0:
            ctx.sample({"part": "D-evolve", "spec": spec})


class _Slice:
    """ctx proxy: ``budget_ok()`` is True for the first ``min_calls`` calls whatever the
    clock says (every part must observe something even on an overloaded machine), then
    stops at a fraction of the soft deadline so that one part cannot starve the others"""

    def __init__(self, ctx, frac, min_calls):
        self._ctx, self._frac, self._left = ctx, frac, min_calls

    def __getattr__(self, name):
        return getattr(self._ctx, name)

    def budget_ok(self):
        import time

        if self._left > 0:
            self._left -= 1
            return True
        if time.monotonic() - self._ctx.t0 > self._frac * self._ctx.soft_s:
            return False
        return self._ctx.budget_ok()


def run(ctx):
    R = Rig(ctx)
    try:
        # bounded parts first, each with its own slice of the budget; objects (part A) last
        R.ctx = _Slice(ctx, 0.2, 12)
        part_bc(R, ctx.pick({"quick": 1, "thorough": 6}))
        R.ctx = _Slice(ctx, 0.35, 3)
        part_d(R, ctx.pick({"quick": 8, "thorough": 300}))
        R.ctx = _Slice(ctx, 0.5, 18)
        part_e(R, ctx.pick({"quick": 5, "thorough": 120}))
        R.ctx = _Slice(ctx, 0.6, 64)
        part_e_schemas(R, ctx.pick({"quick": 1, "thorough": 12}))
        R.ctx = _Slice(ctx, 0.7, 24)
        part_e_aliased(R, ctx.pick({"quick": 1, "thorough": 10}))
        R.ctx = _Slice(ctx, 0.8, 6)
        part_d_evolve(R, ctx.pick({"quick": 6, "thorough": 200}))
        R.ctx = _Slice(ctx, 1.0, 40)
        part_a(R, ctx.pick({"quick": 280, "thorough": 3000}))
    finally:
        R.engine.dispose()
