"""C52 -- scoped_session gives each scope its own session.

M-sched (LINE preemption in orm/scoping.py and util/_collections.py) runs 2-4 threads
that call the registry, proxied methods and remove() on one shared scoped_session.
Sessions are instances of a Session subclass whose close() reports (session, calling
thread) to the monitor.  The per-scope ledger is updated by the running worker (only
one thread runs at a time).

Oracles
  * same-scope-different-session: two consecutive registry()/proxy results in one scope
    differ although no remove() of that scope started or finished in between.
  * scopes-share-session: the sessions current in two different scopes are the same object.
  * remove-closed-foreign-session: remove() closed a session that is not the calling
    scope's current one, or removed another scope's registry entry (that scope's next
    call returns a different session although it never called remove()).
  * remove-did-not-close / remove-did-not-discard: after remove() the scope's old session
    was not closed, or the next call returns the old session.
  * kwargs-with-existing-session must raise InvalidRequestError (registry.configure path).
Scope kinds: thread-local registry; scopefunc = per-thread token; scopefunc = one shared
token (exercises the setdefault race: racing creators must all end with one session).
For the shared scope, "between" is judged with a global remove epoch (any thread's
remove() invalidates the expectation), so a legitimate concurrent remove never alarms.
"""
from __future__ import annotations

META = {
    "id": "C52",
    "level": "exploration",
    "technique": "deterministic thread scheduler (LINE preemption in orm/scoping.py, util/_collections.py) with a per-scope session ledger and close() monitor",
    "level_text": "Thousands of seeded thread schedules (2-4 threads x 3-7 ops: registry(), proxied add/info, remove(), configure-error path) on thread-local, per-thread-scopefunc and shared-scopefunc registries, each judged online by a per-scope ledger; thorough adds all single forced preemptions on a small configuration.",
    "level_note": "Preemption granularity is a source line of orm/scoping.py and util/_collections.py; no engine is bound (sessions never touch a database). threading.local itself is trusted.",
    "design_ref": "DESIGN.md section 4, C52",
    "rule": "case = one schedule (scope kind, worker programs, decisions); non-trivial = >=1 preemption and >=1 remove(); distinct by (kind, programs, switch trace digest)",
    "shards": {"quick": 8, "thorough": 16},
    "soft_s": {"quick": 45, "thorough": 600},
    "require": ["schedules", "preemptions", "line_events", "registry_calls", "removes", "closes_observed", "kwargs_first_calls", "shared_scope_races", "generation_runs", "thread_idents_reused"],
    "assumptions": ["threading.local gives per-thread storage"],
}


def run_schedule(ctx, orm, exc, sched_mod, kind, progs, rng, forced=None):
    import threading

    closes = []

    class MonSession(orm.Session):
        def close(self):
            closes.append((self, threading.get_ident()))
            return super().close()

    factory = orm.sessionmaker(class_=MonSession)
    tok = {}
    if kind == "threadlocal":
        reg = orm.scoped_session(factory)
    elif kind == "per_thread":
        reg = orm.scoped_session(factory, scopefunc=lambda: tok.get(threading.get_ident(), threading.get_ident()))
    else:
        reg = orm.scoped_session(factory, scopefunc=lambda: "shared")

    s = sched_mod.Scheduler(rng, switch_prob=rng.choice([0.15, 0.3, 0.5]), forced=forced)
    current = {}      # scope -> last session seen by that scope (strong ref keeps ids unique)
    epoch = {}        # scope -> remove epoch
    seen_epoch = {}   # (worker) -> epoch at time of last observation
    g = {"epoch": 0, "removes": 0, "calls": 0}
    keep = []         # keep every session alive so identity comparisons are meaningful

    def scope_of(name):
        return "shared" if kind == "shared" else name

    def desc():
        return {"kind": kind, "progs": progs, "trace": s.trace[-60:]}

    active = {}       # scope -> removes (or kwargs-calls) currently in progress

    def snap(name):
        sc = scope_of(name)
        return (epoch.get(sc, 0), active.get(sc, 0))

    def begin_remove(sc):
        epoch[sc] = epoch.get(sc, 0) + 1
        active[sc] = active.get(sc, 0) + 1

    def end_remove(sc):
        epoch[sc] = epoch.get(sc, 0) + 1
        active[sc] = active.get(sc, 0) - 1

    def observe(name, sess, via, before):
        """``before`` = snap() taken before the call started.  Two results are comparable
        only if no remove of the scope was in progress or happened at any time between
        the start of the first call and the end of the second."""
        sc = scope_of(name)
        after = snap(name)
        g["calls"] += 1
        keep.append(sess)
        prev = current.get(sc)
        quiet = before == after and after[1] == 0
        if prev is not None and prev[0] is not sess and quiet and prev[1] == after:
            ctx.violation("same-scope-different-session",
                          f"{name} via {via}: scope {sc} returned a different Session with no remove() in between (kind={kind})", desc())
        for other, (osess, _) in current.items():
            if other != sc and osess is sess:
                ctx.violation("scopes-share-session", f"scopes {sc} and {other} hold the same Session (kind={kind})", desc())
        if quiet:
            current[sc] = (sess, after)
        else:
            current.pop(sc, None)

    def worker(name, prog):
        def run():
            for op in prog:
                sc = scope_of(name)
                if op == "call":
                    b = snap(name)
                    observe(name, reg(), "call", b)
                elif op == "proxy":
                    # proxied attribute access goes through registry()
                    b = snap(name)
                    observe(name, reg.registry(), "registry", b)
                    reg.info["k"] = name
                elif op == "remove":
                    old = current.get(sc)
                    begin_remove(sc)
                    n0 = len(closes)
                    reg.remove()
                    end_remove(sc)
                    g["removes"] += 1
                    me = threading.get_ident()
                    mine = [c for c in closes[n0:] if c[1] == me]
                    for sess, _ in mine:
                        ok = old is not None and sess is old[0]
                        if kind == "shared":
                            ok = True  # the scope is shared: any current/just-created session of it is legitimate
                        else:
                            # a session this scope created implicitly inside remove() (has() raced) is also its own
                            ok = ok or all(sess is not o[0] for k2, o in current.items() if k2 != sc)
                        if not ok:
                            ctx.violation("remove-closed-foreign-session",
                                          f"{name}.remove() closed a Session belonging to another scope (kind={kind})", desc())
                    if kind != "shared" and old is not None:
                        if not any(sess is old[0] for sess, _ in mine):
                            ctx.violation("remove-did-not-close", f"{name}.remove() did not close the scope's Session (kind={kind})", desc())
                        nxt = reg()
                        keep.append(nxt)
                        if nxt is old[0]:
                            ctx.violation("remove-did-not-discard", f"{name}: registry() after remove() returned the removed Session (kind={kind})", desc())
                        current[sc] = (nxt, snap(name))
                        g["calls"] += 1
                    else:
                        current.pop(sc, None)
                elif op == "kwcall":
                    # registry(**kw) as the FIRST call of a scope creates a Session configured
                    # with kw and makes it the scope's Session; with one present it raises
                    b = snap(name)
                    if kind == "shared":
                        begin_remove(sc)
                        try:
                            keep.append(reg(autoflush=False))
                        except exc.InvalidRequestError:
                            pass
                        finally:
                            end_remove(sc)
                    elif current.get(sc) is None:
                        sess = reg(autoflush=False)
                        g["kwfirst"] = g.get("kwfirst", 0) + 1
                        if sess.autoflush is not False:
                            ctx.violation("kwargs-not-applied", f"{name}: registry(autoflush=False) returned a Session with autoflush={sess.autoflush!r} (kind={kind})", desc())
                        observe(name, sess, "kwcall", b)
                        observe(name, reg(), "call", snap(name))
                        if not reg.registry.has():
                            ctx.violation("kwargs-session-not-registered", f"{name}: registry.has() is False after registry(**kw) (kind={kind})", desc())
                    else:
                        try:
                            keep.append(reg(autoflush=False))
                            ctx.violation("kwargs-with-existing-session-did-not-raise",
                                          f"{name}: registry(**kw) with a Session present did not raise (kind={kind})", desc())
                        except exc.InvalidRequestError:
                            pass
                        observe(name, reg(), "call", snap(name))
                elif op == "configure":
                    b = snap(name)
                    observe(name, reg(), "call", b)
                    # has()/set() in the kwargs path may legitimately replace the shared
                    # scope's session when another thread removed it concurrently:
                    # treat the attempt like a remove (epoch bump before and after)
                    begin_remove(sc)
                    try:
                        reg(autoflush=False)
                        # legitimate only if this scope's session was removed concurrently (shared scope)
                        if kind != "shared":
                            ctx.violation("kwargs-with-existing-session-did-not-raise",
                                          f"{name}: registry(**kw) with a Session present did not raise (kind={kind})", desc())
                    except exc.InvalidRequestError:
                        pass
                    finally:
                        end_remove(sc)

        return run

    for i, prog in enumerate(progs):
        s.spawn(worker(f"w{i}", prog), f"w{i}")
    s.run()
    ctx.count("schedules")
    ctx.count("preemptions", s.preemptions)
    ctx.count("line_events", s.line_events)
    ctx.count("registry_calls", g["calls"])
    ctx.count("removes", g["removes"])
    ctx.count("kwargs_first_calls", g.get("kwfirst", 0))
    ctx.count("closes_observed", len(closes))
    if kind == "shared":
        ctx.count("shared_scope_races")
    if s.deadlock:
        ctx.violation("deadlock", f"kind={kind}", desc())
    for t in s.tasks:
        if t.exc is not None:
            ctx.violation(f"worker-exception:{type(t.exc).__name__}", f"{t.name}: {t.exc!r} kind={kind}", desc())
    # final: distinct scopes hold distinct sessions
    if kind != "shared":
        ids = [id(v[0]) for v in current.values()]
        if len(set(ids)) != len(ids):
            ctx.violation("scopes-share-session", f"final state: {len(ids)} scopes, {len(set(ids))} sessions (kind={kind})", desc())
    ctx.seen("final_state", [kind, len(current), len(closes)])
    ctx.seen("schedule_digest", kind + s.digest())
    ctx.case({"kind": kind, "progs": progs, "trace": s.digest()},
             nontrivial=s.preemptions >= 1 and any("remove" in p for p in progs))
    for sess in keep:
        orm.Session.close(sess)
    return s


def run_generations(ctx, orm, sched_mod, rng, kind):
    """Thread *lifecycle*: a generation of threads uses the registry and terminates
    without remove(); a later generation (whose OS thread identifiers are typically
    recycled) must not be handed a Session that belonged to a terminated thread's scope.
    Judged for thread scopes only (thread-local registry, per-thread scopefunc is keyed
    on the identifier by construction and therefore not judged here)."""
    import threading

    factory = orm.sessionmaker()
    reg = orm.scoped_session(factory)
    owner = {}        # id(session) -> (generation, worker)
    keep = []
    idents = [set(), set()]
    for gen in (0, 1):
        s = sched_mod.Scheduler(rng, switch_prob=0.3)

        def worker(name, gen=gen):
            def run():
                idents[gen].add(threading.get_ident())
                sess = reg()
                keep.append(sess)
                prev = owner.get(id(sess))
                if prev is not None and prev != (gen, name):
                    ctx.violation(
                        "thread-scope-inherited-session-of-terminated-thread" if prev[0] != gen else "scopes-share-session",
                        f"{name} (generation {gen}) was handed the Session of {prev[1]} (generation {prev[0]}) kind={kind}",
                        {"kind": kind, "generation": gen},
                    )
                owner[id(sess)] = (gen, name)
                if reg() is not sess:
                    ctx.violation("same-scope-different-session", f"{name}: second call returned another Session (generations)", {"kind": kind})

            return run

        for i in range(3):
            s.spawn(worker(f"g{gen}w{i}"), f"g{gen}w{i}")
        s.run()
        ctx.count("schedules")
        ctx.count("preemptions", s.preemptions)
        ctx.count("line_events", s.line_events)
    reused = len(idents[0] & idents[1])
    ctx.count("generation_runs")
    ctx.count("thread_idents_reused", reused)
    ctx.case({"generations": kind, "reused": reused, "n": ctx.counters["generation_runs"], "shard": ctx.shard}, nontrivial=reused > 0)
    for sess in keep:
        sess.close()


def gen_prog(rng, n):
    return [rng.choice(["call", "call", "proxy", "remove", "remove", "configure", "kwcall", "kwcall"]) for _ in range(n)]


def run(ctx):
    import sqlalchemy.orm.scoping as scoping
    import sqlalchemy.util._collections as ucoll
    from sqlalchemy import exc
    from sqlalchemy import orm

    from vf.mon import sched as sched_mod

    rng = ctx.rng
    instr = sched_mod.Instrumentation(line_modules=[scoping, ucoll])
    with instr:
        n = ctx.pick({"quick": 500, "thorough": 15000})
        for it in range(n):
            if it >= 12 and not ctx.budget_ok(0.75):
                break
            kind = ["threadlocal", "per_thread", "shared"][it % 3]
            progs = [gen_prog(rng, rng.randint(3, 7)) for _ in range(rng.randint(2, 4))]
            run_schedule(ctx, orm, exc, sched_mod, kind, progs, rng)
            if it < 3:
                ctx.sample({"kind": kind, "progs": progs})
        for it in range(ctx.pick({"quick": 25, "thorough": 400})):
            if it >= 5 and not ctx.budget_ok(0.9):
                break
            run_generations(ctx, orm, sched_mod, rng, "threadlocal")
        # single forced preemptions, exhaustively, on a small configuration
        for kind in ("shared", "per_thread", "threadlocal"):
            progs = [["call", "remove", "call"], ["call", "call", "remove"]]
            s0 = run_schedule(ctx, orm, exc, sched_mod, kind, progs, rng, forced={})
            nsteps = s0.step
            stride = ctx.pick({"quick": 4, "thorough": 1})
            for i in range(1 + (ctx.shard % stride), nsteps + 1, stride):
                if not ctx.mine(i // stride) or not ctx.budget_ok():
                    continue
                for tgt in (0, 1):
                    run_schedule(ctx, orm, exc, sched_mod, kind, progs, rng, forced={i: tgt})
                    ctx.count("forced_single_preemption_schedules")
