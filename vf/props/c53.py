"""C53 -- horizontal sharding routes reads and writes per the shard choosers.

Workload: 2-4 SQLite *file* shards with identical tables (Station -o2m-> Report), a
``ShardedSession`` with generated chooser functions:
* shard_chooser: region lookup table or a hash of the station name; Reports follow their
  station;
* identity_chooser: the lazy-loading parent's shard, else all shards in a generated order;
* execute_chooser: either analyses the statement for ``region ==`` / ``region IN`` criteria
  (as in the documentation example) or obeys a generated per-statement shard list; lazy
  loads go to the parent's shard.
Every chooser call is logged, the log *is* the specification ("the shard its chooser
selects").  Data is generated with **colliding primary keys across shards** (stations and
reports reuse ids 1..3 in different shards).

A case is a random program: bulk creation + commit, then 10-16 operations drawn from:
entity / column / join queries (2.0 style and legacy Query) with and without
shard-restricting criteria, ``set_shard_id`` option, ``bind_arguments['shard_id']``,
``Query.set_shard``, ``identity_token`` execution option; ``get`` with and without
``identity_token``; lazy loads of ``Station.reports`` and ``Report.station``; attribute
edits, inserts, deletes (flush + commit); one flush updating the same columns of several
objects that live on different shards (equal primary keys included); pickle round trip of
objects from all shards, ``expunge_all`` + ``add_all`` of the copies and two edit+flush
rounds; ORM bulk UPDATE / DELETE with synchronize_session evaluate / fetch / auto.

Oracle: raw ``sqlite3`` reads of each shard file.
* after every commit, every shard file equals a model that places each object in the shard
  its logged shard_chooser call returned (and nowhere else), applies edits / deletes to the
  row of the object's own shard, and applies bulk statements to exactly the shards the
  logged execute_chooser call returned;
* a query's rows are, as a multiset, the union of what the same WHERE clause yields by raw
  SQL on the shards the chooser selected; every returned entity carries the identity token
  of the shard whose row it shows, (token, pk) pairs are unique, and entities with equal
  pk from different shards are distinct objects;
* lazy loads return the rows of the parent's shard only (the other shards hold different
  children under the same parent pk);
* after bulk UPDATE / DELETE, in-session objects of untouched shards that share a primary
  key with matched rows keep their state and membership.

A flush of such edits that raises (StaleDataError, AssertionError ...) although the model
rows exist on the objects' shards is a violation ("every flushed object is written to the
shard ..."); unpickled objects must keep ``state.identity_token == key[2]`` and their
identity keys across flushes.

Further histories with equal pks across shards: ``merge()`` (load True / False) of detached
objects of every shard into a session that holds the objects of another shard (the result
must carry the source's identity key, token included, and be flushed to that shard);
``refresh``; eager loading of ``Station.reports`` with selectinload / subqueryload /
joinedload (children of the parent's shard only); joined-table inheritance (Device / Probe /
Gauge) whose subclass columns are loaded by a second statement (deferred "optimized get",
polymorphic selectin).

Guards: merged multi-shard results are concatenations, so order is never judged;
aggregates / LIMIT across shards are not generated (per-shard semantics are documented);
a station's region is never edited (identity tokens are fixed at load, by design).
"""
from __future__ import annotations

META = {
    "id": "C53",
    "level": "exploration",
    "technique": "random sharded programs with logged chooser decisions; raw sqlite3 reads of every shard file as the oracle for placement, query unions, lazy loads and bulk DML",
    "level_text": "Seeded programs over 2-4 file shards, two shard_chooser families x two execute_chooser families x generated identity_chooser orders, colliding primary keys in every case; after each commit all shard files are compared with a placement model derived from the logged chooser calls, and each query / get / lazy load is compared with raw reads of the selected shards.",
    "level_note": "SQLite file shards only. Cross-shard aggregates, ORDER BY/LIMIT merging and relationship moves between shards are not generated (documented per-shard semantics). Two-phase commit is not used.",
    "design_ref": "DESIGN.md section 4, C53",
    "rule": "case = one program (shard count, chooser kinds, data, operation list); non-trivial = at least two shards hold a Station with the same primary key while the program runs; distinct by program descriptor",
    "shards": {"quick": 8, "thorough": 16},
    "modes": ["cext"],
    "soft_s": {"quick": 45, "thorough": 700},
    "exhaustive": {"quick": False, "thorough": False},
    "require": ["programs", "commits_compared", "rows_placed_checked", "pk_collisions", "queries_compared",
                "restricted_queries", "gets_compared", "lazy_loads_compared", "bulk_dml_compared",
                "shard_chooser_calls", "execute_chooser_calls", "identity_chooser_calls",
                "distinct_same_pk_entities", "multi_shard_update_flushes",
                "multi_shard_update_flushes_with_equal_pk", "pickle_cycles", "merge_cycles_load_True",
                "merge_cycles_load_False", "merges_with_other_shard_same_pk_loaded", "refreshes_compared",
                "eager_loads_compared", "subclass_attribute_loads_compared"],
    "assumptions": ["raw sqlite3 reads of a shard file show its committed rows"],
}

REGIONS = ("north", "south", "east", "west", "mid", "far")


class Env:
    def __init__(self, ctx, nshards):
        import sqlalchemy as sa
        from sqlalchemy import orm

        from vf.gen import ormrig_gm as rig

        self.ctx, self.sa, self.orm, self.rig = ctx, sa, orm, rig
        self.names = ["s%d" % i for i in range(nshards)]
        self.paths = {n: ctx.tmppath(".db") for n in self.names}
        self.engines = {n: sa.create_engine("sqlite:///" + p) for n, p in self.paths.items()}
        for e in self.engines.values():
            rig.Base53.metadata.create_all(e)

    def reset(self):
        import sqlite3

        for p in self.paths.values():
            con = sqlite3.connect(p)
            for t in ("gm_probe", "gm_gauge", "gm_device", "gm_report", "gm_station"):
                con.execute("DELETE FROM %s" % t)
            con.commit()
            con.close()

    def raw(self, shard, sql, params=()):
        import sqlite3

        con = sqlite3.connect(self.paths[shard], timeout=1.0)
        try:
            return con.execute(sql, params).fetchall()
        finally:
            con.close()

    def dump(self):
        out = {}
        for n in self.names:
            out[n] = {
                "station": {r[0]: r for r in self.raw(n, "SELECT id, region, name, level FROM gm_station")},
                "report": {r[0]: r for r in self.raw(n, "SELECT id, station_id, temp, tag FROM gm_report")},
                "device": {r[0]: r for r in self.raw(
                    n, "SELECT d.id, d.kind, d.label, COALESCE(p.depth, g.width) FROM gm_device d "
                       "LEFT JOIN gm_probe p ON p.id = d.id LEFT JOIN gm_gauge g ON g.id = d.id")},
            }
        return out

    def close(self):
        for e in self.engines.values():
            e.dispose()


class Program:
    """one ShardedSession with generated choosers + the placement model"""

    def __init__(self, env, rng, desc):
        from sqlalchemy.ext.horizontal_shard import ShardedSession
        from sqlalchemy.sql import operators, visitors

        self.env, self.rng, self.desc = env, rng, desc
        sa, M = env.sa, env.rig
        self.names = env.names
        n = len(self.names)
        self.region_map = {r: self.names[desc["region_perm"][i] % n] for i, r in enumerate(REGIONS)}
        self.log = []
        self.id_order = [self.names[i] for i in desc["id_order"]]
        ctx = env.ctx

        def shard_for_station(st):
            if desc["shard_chooser"] == "region":
                return self.region_map[st.region]
            return self.names[sum(map(ord, st.name or "")) % n]

        def shard_chooser(mapper, instance, clause=None):
            ctx.count("shard_chooser_calls")
            if instance is None:
                res = self.names[0]
            elif isinstance(instance, M.Station):
                res = shard_for_station(instance)
            elif isinstance(instance, M.Device):
                res = self.names[sum(map(ord, instance.label or "")) % n]
            else:
                res = sa.inspect(instance.station).identity_token or shard_for_station(instance.station)
            self.log.append(("shard", id(instance) if instance is not None else None, res))
            return res

        def identity_chooser(mapper, primary_key, *, lazy_loaded_from, execution_options, bind_arguments, **kw):
            ctx.count("identity_chooser_calls")
            if lazy_loaded_from is not None:
                res = [lazy_loaded_from.identity_token]
            else:
                res = list(self.id_order)
            self.log.append(("identity", tuple(primary_key) if isinstance(primary_key, (list, tuple)) else primary_key, res))
            return res

        def execute_chooser(context):
            ctx.count("execute_chooser_calls")
            if context.is_select and context.lazy_loaded_from is not None:
                res = [context.lazy_loaded_from.identity_token]
            elif desc["execute_chooser"] == "option":
                res = list(context.execution_options.get("gm_shards", self.names))
            else:
                found = []
                for el in visitors.iterate(context.statement):
                    if getattr(el, "__visit_name__", None) == "binary" and getattr(el.left, "name", None) == "region":
                        if el.operator is operators.eq:
                            found.append(self.region_map[el.right.value])
                        elif el.operator is operators.in_op:
                            found.extend(self.region_map[v] for v in el.right.value)
                res = [s for s in self.names if s in found] if found else list(self.names)
            self.log.append(("execute", None, list(res)))
            return res

        self.session = ShardedSession(shard_chooser=shard_chooser, identity_chooser=identity_chooser,
                                      execute_chooser=execute_chooser, shards=dict(env.engines))
        self.model = {s: {"station": {}, "report": {}, "device": {}} for s in self.names}
        self.objs = []      # strong refs: (obj, kind, shard, pk)

    def last(self, kind):
        for rec in reversed(self.log):
            if rec[0] == kind:
                return rec
        return None

    def close(self):
        self.session.close()


def run_program(env, prog, k):
    ctx, sa, orm, M = env.ctx, env.sa, env.orm, env.rig
    from sqlalchemy.ext.horizontal_shard import set_shard_id

    rng, desc, sess = prog.rng, prog.desc, prog.session
    names = prog.names
    S, Rp = M.Station, M.Report
    trace = []

    def vio(mech, msg, extra=None):
        ctx.violation(mech, "%s :: choosers=%s/%s shards=%d" % (msg, desc["shard_chooser"], desc["execute_chooser"], len(names)),
                      {"program": desc, "trace": trace[-10:], "detail": extra})

    def compare_files(tag):
        ctx.count("commits_compared")
        got = env.dump()
        for s in names:
            for tab in ("station", "report", "device"):
                exp = prog.model[s][tab]
                g = got[s][tab]
                ctx.count("rows_placed_checked", len(exp))
                if g != exp:
                    missing = sorted(set(exp) - set(g))
                    extra = sorted(set(g) - set(exp))
                    elsewhere = [(pk, s2) for pk in missing for s2 in names if s2 != s and pk in got[s2][tab]
                                 and pk not in prog.model[s2][tab]]
                    if elsewhere:
                        mech = "row-written-to-wrong-shard"
                    elif missing:
                        mech = "row-missing-from-chosen-shard"
                    elif extra:
                        mech = "unexpected-row-in-shard"
                    else:
                        mech = "row-content-differs-in-shard"
                    vio("%s-%s" % (mech, tag), "shard %s table %s: expected %s got %s" % (s, tab, exp, g),
                        {"elsewhere": elsewhere})
                    return False
        return True

    def collisions():
        seen = {}
        c = 0
        for s in names:
            for pk in prog.model[s]["station"]:
                c += pk in seen
                seen[pk] = s
        return c

    # ---- step 1: creation -------------------------------------------------
    used = {s: {"station": set(), "report": set()} for s in names}
    created = []
    for i in range(desc["nstations"]):
        region = rng.choice(REGIONS[: desc["nregions"]])
        name = "st%d%s" % (i, rng.choice("abcdefgh"))
        st = S(region=region, name=name, level=rng.randint(-3, 9))
        # which shard will it go to?  (pure function of the generated chooser tables)
        shard = prog.region_map[region] if desc["shard_chooser"] == "region" else names[sum(map(ord, name)) % len(names)]
        free = [p for p in (1, 2, 3, 4) if p not in used[shard]["station"]]
        if not free:
            continue
        st.id = free[0]
        used[shard]["station"].add(st.id)
        reports = []
        for _ in range(rng.randint(0, 3)):
            freer = [p for p in range(1, 9) if p not in used[shard]["report"]]
            if not freer:
                break
            r = Rp(id=freer[0], temp=rng.randint(-20, 40), tag="t%d" % rng.randint(0, 99))
            used[shard]["report"].add(r.id)
            reports.append(r)
        st.reports = reports
        vals = {"station": (st.region, st.name, st.level), "reports": [(r.id, r.temp, r.tag) for r in reports]}
        created.append((st, shard, vals))
        sess.add(st)
    devs = []
    used_dev = {s: set() for s in names}
    for i in range(rng.randint(3, 7)):
        label = "dv%d%s" % (i, rng.choice("abcdefgh"))
        shard = names[sum(map(ord, label)) % len(names)]
        free = [p for p in (1, 2, 3) if p not in used_dev[shard]]
        if not free:
            continue
        used_dev[shard].add(free[0])
        extra = rng.randint(1, 999)
        d_ = M.Probe(id=free[0], label=label, depth=extra) if i % 2 else M.Gauge(id=free[0], label=label, width=extra)
        devs.append((d_, (free[0], "probe" if i % 2 else "gauge", label, extra)))
        sess.add(d_)
    mark = len(prog.log)
    sess.commit()
    # placement model from the LOGGED shard_chooser decisions and the constructor values
    decided = {rec[1]: rec[2] for rec in prog.log[mark:] if rec[0] == "shard"}
    for d_, row in devs:
        if decided.get(id(d_)) is None:
            raise RuntimeError("no shard_chooser call logged for a flushed device")
        prog.model[decided[id(d_)]]["device"][row[0]] = row
    for st, planned, vals in created:
        shard = decided.get(id(st))
        if shard is None:
            raise RuntimeError("no shard_chooser call logged for a flushed station")
        pk = sa.inspect(st).identity[0]
        if sa.inspect(st).identity_token != shard:
            vio("identity-token-differs-from-chosen-shard", "station %s token %s chooser %s" % (pk, sa.inspect(st).identity_token, shard))
            return
        prog.model[shard]["station"][pk] = (pk,) + vals["station"]
        for rv in vals["reports"]:
            prog.model[shard]["report"][rv[0]] = (rv[0], pk) + rv[1:]
    if not compare_files("after-insert"):
        return
    ncoll = collisions()
    ctx.count("pk_collisions", ncoll)
    sess.expire_all()
    sess.expunge_all()

    # ---- step 2: operations ---------------------------------------------
    def expected_station_rows(shards, where, params=()):
        out = []
        for s in shards:
            for r in env.raw(s, "SELECT id, region, name, level FROM gm_station WHERE " + where, params):
                out.append((s,) + tuple(r))
        return out

    def check_entities(objs, exp, what):
        got = []
        for o in objs:
            st_ = sa.inspect(o)
            d = o.__dict__
            got.append((st_.identity_token, d.get("id"), d.get("region"), d.get("name"), d.get("level")))
        if sorted(got, key=repr) != sorted(exp, key=repr):
            tokens_only = sorted((g[0], g[1]) for g in got) == sorted((e[0], e[1]) for e in exp)
            pks_only = sorted(g[1] for g in got) == sorted(e[1] for e in exp)
            mech = ("entity-state-differs-from-its-shard-row" if tokens_only else
                    "entity-identity-token-wrong" if pks_only else "query-rows-differ-from-union-of-chosen-shards")
            vio("%s-%s" % (mech, what), "got %s expected %s" % (sorted(got, key=repr), sorted(exp, key=repr)))
            return False
        if len({id(o) for o in objs}) != len(objs) and len(set(got)) == len(got):
            vio("same-object-returned-for-two-rows-" + what, "objects collapsed")
            return False
        bypk = {}
        for o in objs:
            bypk.setdefault(o.__dict__.get("id"), []).append(o)
        for pk, lst in bypk.items():
            if len(lst) > 1:
                ctx.count("distinct_same_pk_entities", len(lst))
                if len({id(x) for x in lst}) != len(lst):
                    vio("equal-pk-entities-collapsed-" + what, "pk %s" % pk)
                    return False
        return True

    nops = desc["nops"]
    for opi in range(nops):
        if ctx.violations:
            pass
        op = rng.choice(["q_all", "q_region", "q_region_in", "q_level", "q_cols", "q_join", "q_shard_opt", "q_bind_arg",
                         "q_legacy", "q_legacy_set_shard", "q_identity_token", "get_token", "get_plain", "lazy_reports",
                         "lazy_station", "edit", "insert_report", "delete_report", "bulk_update", "bulk_delete",
                         "insert_station", "edit_many", "edit_many", "pickle_cycle", "merge_cycle", "merge_cycle",
                         "refresh_all", "eager_reports", "device_attrs"])
        regions_in_use = REGIONS[: desc["nregions"]]
        r1 = rng.choice(regions_in_use)
        r2 = rng.choice(regions_in_use)
        lvl = rng.randint(-2, 6)
        tgt = rng.choice(names)
        sub = sorted(rng.sample(names, rng.randint(1, len(names))))
        opt = {}
        if desc["execute_chooser"] == "option":
            opt = {"gm_shards": tuple(sub)}
        trace.append((op, r1, r2, lvl, tgt, sub))
        mark = len(prog.log)

        def chosen():
            rec = next((x for x in prog.log[mark:] if x[0] == "execute"), None)
            return rec[2] if rec else None

        try:
            if op in ("q_all", "q_region", "q_region_in", "q_level"):
                where, params, stmt = {
                    "q_all": ("1=1", (), sa.select(S)),
                    "q_region": ("region = ?", (r1,), sa.select(S).where(S.region == r1)),
                    "q_region_in": ("region IN (?, ?)", (r1, r2), sa.select(S).where(S.region.in_([r1, r2]))),
                    "q_level": ("level > ?", (lvl,), sa.select(S).where(S.level > lvl)),
                }[op]
                objs = sess.execute(stmt, execution_options=opt).scalars().all()
                ch = chosen()
                if ch is None:
                    raise RuntimeError("execute_chooser not called for %s" % op)
                ctx.count("queries_compared")
                if len(ch) < len(names):
                    ctx.count("restricted_queries")
                if not check_entities(objs, expected_station_rows(ch, where, params), "select"):
                    return
            elif op == "q_cols":
                rows = sess.execute(sa.select(S.id, S.name, S.level).where(S.level <= lvl), execution_options=opt).all()
                ch = chosen()
                exp = [r[1:2] + r[3:5] for r in expected_station_rows(ch, "level <= ?", (lvl,))]
                ctx.count("queries_compared")
                if sorted(map(tuple, rows)) != sorted(exp):
                    vio("query-rows-differ-from-union-of-chosen-shards-columns", "got %s expected %s" % (sorted(map(tuple, rows)), sorted(exp)))
                    return
            elif op == "q_join":
                rows = sess.execute(sa.select(Rp).join(Rp.station).where(S.region == r1), execution_options=opt).scalars().all()
                ch = chosen()
                exp = []
                for s in ch:
                    exp += [(s,) + tuple(r) for r in env.raw(
                        s, "SELECT r.id, r.station_id, r.temp, r.tag FROM gm_report r JOIN gm_station s ON s.id = r.station_id WHERE s.region = ?", (r1,))]
                got = [(sa.inspect(o).identity_token, o.__dict__.get("id"), o.__dict__.get("station_id"), o.__dict__.get("temp"), o.__dict__.get("tag")) for o in rows]
                ctx.count("queries_compared")
                if len(ch) < len(names):
                    ctx.count("restricted_queries")
                if sorted(got) != sorted(exp):
                    vio("query-rows-differ-from-union-of-chosen-shards-join", "got %s expected %s" % (sorted(got), sorted(exp)))
                    return
            elif op in ("q_shard_opt", "q_bind_arg", "q_legacy_set_shard", "q_identity_token"):
                if op == "q_shard_opt":
                    objs = sess.execute(sa.select(S).where(S.level > lvl).options(set_shard_id(tgt))).scalars().all()
                elif op == "q_bind_arg":
                    objs = sess.execute(sa.select(S).where(S.level > lvl), bind_arguments={"shard_id": tgt}).scalars().all()
                elif op == "q_legacy_set_shard":
                    objs = sess.query(S).filter(S.level > lvl).set_shard(tgt).all()
                else:
                    objs = sess.execute(sa.select(S).where(S.level > lvl), execution_options={"identity_token": tgt}).scalars().all()
                if chosen() is not None:
                    vio("execute-chooser-consulted-despite-explicit-shard-" + op, "explicit shard %s but execute_chooser was called" % tgt)
                    return
                ctx.count("queries_compared")
                ctx.count("restricted_queries")
                if not check_entities(objs, expected_station_rows([tgt], "level > ?", (lvl,)), op):
                    return
            elif op == "q_legacy":
                q = sess.query(S).filter(S.region == r1)
                if opt:
                    q = q.execution_options(**opt)
                objs = q.all()
                ch = chosen()
                ctx.count("queries_compared")
                if not check_entities(objs, expected_station_rows(ch, "region = ?", (r1,)), "legacy-query"):
                    return
            elif op in ("get_token", "get_plain"):
                pk = rng.choice([1, 2, 3, 4])
                holders = [s for s in names if env.raw(s, "SELECT 1 FROM gm_station WHERE id = ?", (pk,))]
                ctx.count("gets_compared")
                if op == "get_token":
                    o = sess.get(S, pk, identity_token=tgt)
                    exp_shards = [tgt] if tgt in holders else []
                else:
                    # without a token the identity map is searched in identity_chooser order and
                    # the database through execute_chooser (all shards here): with a colliding
                    # pk the call is ambiguous by design (identity-map hit of any holder, or
                    # MultipleResultsFound) -- guard
                    from sqlalchemy.exc import MultipleResultsFound
                    try:
                        o = sess.get(S, pk)
                    except MultipleResultsFound:
                        if len(holders) < 2:
                            vio("get-multiple-results-for-unique-pk", "get(%s) raised MultipleResultsFound, holders %s" % (pk, holders))
                            return
                        ctx.count("ambiguous_gets")
                        sess.rollback()
                        continue
                    exp_shards = holders
                    if len(holders) > 1:
                        ctx.count("ambiguous_gets")
                if o is None:
                    if exp_shards:
                        vio("get-missed-existing-row", "get(%s) returned None, %s hold it" % (pk, exp_shards))
                        return
                else:
                    tok = sa.inspect(o).identity_token
                    if tok not in exp_shards:
                        vio("get-returned-entity-of-wrong-shard", "get(%s) returned token %s, candidates %s" % (pk, tok, exp_shards))
                        return
                if o is not None:
                    tok = sa.inspect(o).identity_token
                    row = env.raw(tok, "SELECT id, region, name, level FROM gm_station WHERE id = ?", (pk,))
                    sess.refresh(o)
                    if not row or (o.id, o.region, o.name, o.level) != tuple(row[0]):
                        vio("entity-state-differs-from-its-shard-row-get", "token %s row %s obj %s" % (tok, row, (o.id, o.region, o.name, o.level)))
                        return
            elif op in ("lazy_reports", "lazy_station"):
                sess.expire_all()
                if op == "lazy_reports":
                    parents = sess.execute(sa.select(S).options(set_shard_id(tgt))).scalars().all()
                    for p in parents:
                        tok = sa.inspect(p).identity_token
                        got = sorted((sa.inspect(r).identity_token, r.id, r.station_id, r.temp, r.tag) for r in p.reports)
                        exp = sorted((tok,) + tuple(r) for r in env.raw(tok, "SELECT id, station_id, temp, tag FROM gm_report WHERE station_id = ?", (p.id,)))
                        ctx.count("lazy_loads_compared")
                        if got != exp:
                            vio("lazy-load-crossed-shards-reports", "station %s@%s reports %s expected %s" % (p.id, tok, got, exp))
                            return
                else:
                    kids = sess.execute(sa.select(Rp).options(set_shard_id(tgt))).scalars().all()
                    for c in kids:
                        tok = sa.inspect(c).identity_token
                        par = c.station
                        exp = env.raw(tok, "SELECT id, region, name, level FROM gm_station WHERE id = ?", (c.station_id,))
                        ctx.count("lazy_loads_compared")
                        if par is None or not exp or sa.inspect(par).identity_token != tok or (par.id, par.region, par.name, par.level) != tuple(exp[0]):
                            vio("lazy-load-crossed-shards-station", "report %s@%s parent %s expected %s" % (
                                c.id, tok, None if par is None else (sa.inspect(par).identity_token, par.id, par.region, par.name), exp))
                            return
            elif op in ("edit", "insert_report", "delete_report", "insert_station"):
                objs = sess.execute(sa.select(S).options(set_shard_id(tgt))).scalars().all()
                if op == "insert_station":
                    region = rng.choice(regions_in_use)
                    name = "ns%d%s" % (opi, rng.choice("abcdefgh"))
                    shard = prog.region_map[region] if desc["shard_chooser"] == "region" else names[sum(map(ord, name)) % len(names)]
                    free = [p for p in (1, 2, 3, 4) if p not in prog.model[shard]["station"]]
                    if not free:
                        continue
                    st = S(id=free[0], region=region, name=name, level=lvl)
                    sess.add(st)
                    m2 = len(prog.log)
                    sess.commit()
                    dec = next((x[2] for x in prog.log[m2:] if x[0] == "shard" and x[1] == id(st)), None)
                    if dec is None:
                        raise RuntimeError("no shard_chooser call for inserted station")
                    prog.model[dec]["station"][free[0]] = (free[0], region, name, lvl)
                elif not objs:
                    continue
                else:
                    o = rng.choice(objs)
                    tok = sa.inspect(o).identity_token
                    if op == "edit":
                        o.level = (o.level or 0) + 10
                        o.name = o.name + "x"
                        prog.model[tok]["station"][o.id] = (o.id, o.region, o.name, o.level)
                        sess.commit()
                    elif op == "insert_report":
                        free = [p for p in range(1, 12) if p not in prog.model[tok]["report"]]
                        if not free:
                            continue
                        rp = Rp(id=free[0], temp=lvl, tag="ins%d" % opi)
                        vals = (free[0], o.id, lvl, "ins%d" % opi)
                        if rng.random() < 0.5:
                            o.reports.append(rp)
                        else:
                            rp.station = o
                            sess.add(rp)
                        m2 = len(prog.log)
                        sess.commit()
                        dec = next((x[2] for x in prog.log[m2:] if x[0] == "shard" and x[1] == id(rp)), None)
                        # Reports of a persistent parent may be routed through the parent's token
                        prog.model[dec if dec is not None else tok]["report"][free[0]] = vals
                        if dec is not None and dec != tok:
                            vio("child-routed-away-from-parent-shard", "report chooser said %s parent token %s" % (dec, tok))
                            return
                    else:
                        if not o.reports:
                            continue
                        rp = o.reports[-1]
                        rid = rp.id
                        if sa.inspect(rp).identity_token != tok:
                            vio("lazy-load-crossed-shards-reports", "child token differs from parent")
                            return
                        sess.delete(rp)
                        sess.commit()
                        prog.model[tok]["report"].pop(rid, None)
                if not compare_files("after-" + op.replace("_", "-")):
                    return
                sess.expire_all()
            elif op in ("edit_many", "pickle_cycle"):
                # one flush that UPDATEs several same-class objects living on different shards
                # (equal primary keys across shards included), same changed columns
                import pickle

                sess.expire_all()
                which = rng.choice(["station", "station", "report"])
                cls_, tab = (S, "station") if which == "station" else (Rp, "report")
                allobjs = sess.execute(sa.select(cls_)).scalars().all()
                if len(allobjs) < 2:
                    continue
                cols = rng.choice([("level",), ("level", "name")] if which == "station" else [("temp",), ("temp", "tag")])

                def edit(objs_, bump):
                    for o in objs_:
                        tok = sa.inspect(o).key[2]
                        pk = sa.inspect(o).key[1][0]
                        row = list(prog.model[tok][tab][pk])
                        if which == "station":
                            o.level = (o.level or 0) + bump
                            row[3] = o.level
                            if "name" in cols:
                                o.name = (o.name or "") + "m"
                                row[2] = o.name
                        else:
                            o.temp = (o.temp or 0) + bump
                            row[2] = o.temp
                            if "tag" in cols:
                                o.tag = (o.tag or "") + "m"
                                row[3] = o.tag
                        prog.model[tok][tab][pk] = tuple(row)

                def flush(tag):
                    try:
                        sess.commit()
                    except Exception as e:
                        sess.rollback()
                        vio("sharded-flush-raised-%s-%s" % (type(e).__name__, tag), "%s: %s" % (type(e).__name__, str(e)[:300]))
                        return False
                    return compare_files(tag)

                if op == "edit_many":
                    k_ = rng.randint(2, len(allobjs))
                    chosen_objs = rng.sample(allobjs, k_)
                    toks = {sa.inspect(o).identity_token for o in chosen_objs}
                    pks = [sa.inspect(o).identity[0] for o in chosen_objs]
                    if len(toks) > 1:
                        ctx.count("multi_shard_update_flushes")
                        if len(set(pks)) < len(pks):
                            ctx.count("multi_shard_update_flushes_with_equal_pk")
                    edit(chosen_objs, 1000)
                    if not flush("after-edit-many"):
                        return
                else:
                    keys = [sa.inspect(o).key for o in allobjs]
                    copies = pickle.loads(pickle.dumps(allobjs, rng.choice([2, 3, 4, 5])))
                    ctx.count("pickle_cycles")
                    for c, key in zip(copies, keys):
                        stc = sa.inspect(c)
                        if stc.key != key:
                            vio("unpickled-identity-key-differs", "key %s became %s" % (key, stc.key))
                            return
                        if stc.identity_token != key[2]:
                            vio("unpickled-identity-token-differs-from-key", "key %s but state.identity_token=%r" % (key, stc.identity_token))
                            return
                    sess.expunge_all()
                    sess.add_all(copies)
                    for rnd in (1, 2):
                        edit(copies, 7 * rnd)
                        if not flush("after-unpickled-flush-%d" % rnd):
                            return
                        now = [sa.inspect(c).key for c in copies]
                        if now != keys:
                            bad = [(a, b) for a, b in zip(keys, now) if a != b][:2]
                            vio("unpickled-object-rekeyed-by-flush", "flush %d changed identity keys: %s" % (rnd, bad))
                            return
                        if any(c not in sess for c in copies) or len({id(sess.identity_map.get(k2)) for k2 in keys}) != len(keys):
                            vio("unpickled-objects-collapsed-in-session", "after flush %d not all %d objects are in the session" % (rnd, len(copies)))
                            return
                sess.expire_all()
            elif op == "merge_cycle":
                # detached objects of every shard (equal pks across shards) are merged into a
                # session that holds only objects of ANOTHER shard: each merge must resolve to
                # the source's own identity (token included) and be flushed to that shard
                sess.expire_all()
                which = rng.choice(["station", "station", "report"])
                cls_, tab = (S, "station") if which == "station" else (Rp, "report")
                sources = sess.execute(sa.select(cls_)).scalars().all()
                if not sources:
                    continue
                sess.expunge_all()
                load = rng.random() < 0.7
                preload = rng.choice(names)
                held = sess.execute(sa.select(cls_).options(set_shard_id(preload))).scalars().all()
                held_keys = {sa.inspect(o).key for o in held}
                ctx.count("merge_cycles_load_%s" % load)
                merged = []
                for d_ in sources:
                    key = sa.inspect(d_).key
                    if load:
                        if which == "station":
                            d_.level = (d_.level or 0) + 3
                        else:
                            d_.temp = (d_.temp or 0) + 3
                    if key not in held_keys and any(k2[1] == key[1] for k2 in held_keys):
                        ctx.count("merges_with_other_shard_same_pk_loaded")
                    try:
                        m_ = sess.merge(d_, load=load)
                    except Exception as e:
                        sess.rollback()
                        vio("sharded-merge-raised-%s" % type(e).__name__, "merge(load=%s) of %s: %s" % (load, key, str(e)[:200]))
                        return
                    mk = sa.inspect(m_).key
                    if mk != key:
                        vio("merge-resolved-to-other-shard-identity", "merge(load=%s) of %s returned the instance %s" % (load, key, mk))
                        return
                    if sa.inspect(m_).identity_token != key[2]:
                        vio("merged-identity-token-differs-from-key", "key %s token %r" % (key, sa.inspect(m_).identity_token))
                        return
                    merged.append(m_)
                    if load:
                        row = list(prog.model[key[2]][tab][key[1][0]])
                        row[3 if which == "station" else 2] = d_.level if which == "station" else d_.temp
                        prog.model[key[2]][tab][key[1][0]] = tuple(row)
                if len({id(x) for x in merged}) != len(merged):
                    vio("merge-collapsed-same-pk-objects", "distinct identities were merged onto one instance")
                    return
                if not load:
                    # results of load=False are clean; change them now, the flush must route
                    for m_ in merged:
                        key = sa.inspect(m_).key
                        row = list(prog.model[key[2]][tab][key[1][0]])
                        if which == "station":
                            m_.level = (m_.level or 0) + 5
                            row[3] = m_.level
                        else:
                            m_.temp = (m_.temp or 0) + 5
                            row[2] = m_.temp
                        prog.model[key[2]][tab][key[1][0]] = tuple(row)
                try:
                    sess.commit()
                except Exception as e:
                    sess.rollback()
                    vio("sharded-flush-raised-%s-after-merge" % type(e).__name__, "%s: %s" % (type(e).__name__, str(e)[:300]))
                    return
                if not compare_files("after-merge"):
                    return
                sess.expire_all()
            elif op == "refresh_all":
                sess.expire_all()
                objs = sess.execute(sa.select(S)).scalars().all()
                for o in objs:
                    key = sa.inspect(o).key
                    sess.refresh(o)
                    ctx.count("refreshes_compared")
                    row = prog.model[key[2]]["station"].get(key[1][0])
                    if sa.inspect(o).key != key or row is None or (o.id, o.region, o.name, o.level) != tuple(row):
                        vio("refresh-crossed-shards", "refresh of %s gave %s, its shard row %s" % (key, (o.id, o.region, o.name, o.level), row))
                        return
            elif op == "eager_reports":
                how = rng.choice(["selectin", "subquery", "joined", "selectin"])
                sess.expire_all()
                sess.expunge_all()
                opt_ = {"selectin": orm.selectinload, "subquery": orm.subqueryload, "joined": orm.joinedload}[how](S.reports)
                parents = sess.execute(sa.select(S).options(opt_)).unique().scalars().all()
                for p in parents:
                    tok = sa.inspect(p).identity_token
                    got = sorted((sa.inspect(r).identity_token, r.id, r.station_id, r.temp, r.tag) for r in p.__dict__.get("reports", ()))
                    exp = sorted((tok,) + tuple(r) for r in prog.model[tok]["report"].values() if r[1] == p.id)
                    ctx.count("eager_loads_compared")
                    if "reports" not in p.__dict__:
                        vio("eager-load-did-not-load-%s" % how, "station %s@%s" % (p.id, tok))
                        return
                    if got != exp:
                        vio("%sload-children-crossed-shards" % how, "station %s@%s reports %s expected %s" % (p.id, tok, got, exp))
                        return
            elif op == "device_attrs":
                # joined inheritance: subclass columns come from a second statement
                sess.expire_all()
                sess.expunge_all()
                ds = sess.execute(sa.select(M.Device)).scalars().all()
                for d_ in ds:
                    key = sa.inspect(d_).key
                    row = prog.model[key[2]]["device"].get(key[1][0])
                    attr = "depth" if isinstance(d_, M.Probe) else "width"
                    pre_loaded = attr in d_.__dict__
                    val = getattr(d_, attr)
                    ctx.count("subclass_attribute_loads_compared")
                    if row is None or (d_.id, d_.kind, d_.label, val) != tuple(row):
                        vio("joined-inheritance-%s-crossed-shards" % ("polymorphic-selectin-load" if pre_loaded else "deferred-subclass-load"),
                            "%s %s: (%s, %s, %s, %s) but its shard row is %s" % (type(d_).__name__, key, d_.id, d_.kind, d_.label, val, row))
                        return
            elif op in ("bulk_update", "bulk_delete"):
                sync = rng.choice(["evaluate", "fetch", "auto"])
                sess.expire_all()
                held = sess.execute(sa.select(S)).scalars().all()      # all shards' stations in the session
                heldr = sess.execute(sa.select(Rp)).scalars().all()
                mark = len(prog.log)
                eo = dict(opt)
                eo["synchronize_session"] = sync
                if op == "bulk_update":
                    stmt = sa.update(S).where(S.region == r1).values(level=S.level + 100)
                    sess.execute(stmt, execution_options=eo)
                    ch = chosen()
                    if ch is None:
                        raise RuntimeError("execute_chooser not called for bulk update")
                    for s in ch:
                        for pk, row in list(prog.model[s]["station"].items()):
                            if row[1] == r1:
                                prog.model[s]["station"][pk] = (row[0], row[1], row[2], row[3] + 100)
                else:
                    stmt = sa.delete(Rp).where(Rp.temp > lvl * 5)
                    sess.execute(stmt, execution_options=eo)
                    ch = chosen()
                    if ch is None:
                        raise RuntimeError("execute_chooser not called for bulk delete")
                    for s in ch:
                        for pk, row in list(prog.model[s]["report"].items()):
                            if row[2] is not None and row[2] > lvl * 5:
                                del prog.model[s]["report"][pk]
                ctx.count("bulk_dml_compared")
                # in-session objects: state / membership per their own shard's model row
                for o in held:
                    tok = sa.inspect(o).identity_token
                    row = prog.model[tok]["station"].get(o.__dict__.get("id", sa.inspect(o).identity[0]))
                    if "level" in o.__dict__ and row is not None and o.__dict__["level"] != row[3]:
                        vio("bulk-update-desynchronized-session-object", "station %s@%s level %s, its shard row %s (sync=%s, chosen %s)" % (
                            row[0], tok, o.__dict__["level"], row, sync, ch))
                        return
                for o in heldr:
                    st_ = sa.inspect(o)
                    tok = st_.identity_token
                    pk = st_.identity[0]
                    exists = pk in prog.model[tok]["report"]
                    if exists and not st_.persistent:
                        vio("bulk-delete-removed-session-object-of-other-shard", "report %s@%s still exists but left the session (sync=%s, chosen %s)" % (pk, tok, sync, ch))
                        return
                    if not exists and st_.persistent and not st_.expired and "temp" in o.__dict__:
                        vio("bulk-delete-left-session-object", "report %s@%s deleted but still persistent (sync=%s)" % (pk, tok, sync))
                        return
                sess.commit()
                if not compare_files("after-" + op.replace("_", "-")):
                    return
                sess.expire_all()
        finally:
            pass
    ctx.case({k2: v for k2, v in desc.items() if not k2.startswith("_")}, nontrivial=ncoll > 0)
    if k == 0:
        ctx.sample({"program": {k2: v for k2, v in desc.items() if not k2.startswith("_")}, "trace": trace[:8],
                    "chooser_log_tail": [list(map(str, x)) for x in prog.log[-6:]]})


def run(ctx):
    rng = ctx.rng
    envs = {}
    try:
        nprog = ctx.pick({"quick": 100, "thorough": 1200})
        for k in range(nprog):
            if not ctx.budget_ok():
                break
            n = rng.choice([2, 3, 4])
            if n not in envs:
                envs[n] = Env(ctx, n)
            env = envs[n]
            env.reset()
            perm = list(range(len(REGIONS)))
            rng.shuffle(perm)
            order = list(range(n))
            rng.shuffle(order)
            desc = {"n": n, "shard_chooser": rng.choice(["region", "namehash"]),
                    "execute_chooser": rng.choice(["criteria", "option"]), "region_perm": perm, "id_order": order,
                    "nregions": rng.randint(2, len(REGIONS)), "nstations": rng.randint(4, 9), "nops": rng.randint(10, 16),
                    "k": k}
            prog = Program(env, rng, desc)
            try:
                ctx.count("programs")
                run_program(env, prog, k)
            finally:
                prog.close()
    finally:
        for e in envs.values():
            e.close()
