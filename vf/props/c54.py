"""C54 -- utility collections conform to their reference models.

Monitor: every operation of a generated sequence is applied in lock-step to the real
``sqlalchemy.util`` object and to a naive reference model (``vf/models/collections_gf.py``)
and the normalised return value / exception type plus a snapshot of the object are
compared immediately (``vf/gen/collops_gf.py`` is the driver).  For OrderedSet the
snapshot contains the *list view* (``__iter__``), the *set view* (``set.__iter__`` /
``set.__len__``) and the structural invariant ``no duplicates in list and set(list) ==
set view``; any fresh collection returned by an operation is mutated (a sentinel is added)
before the subject is re-read, so a result that aliases the subject's storage is seen.

Parts
  A OrderedSet   : every single operation (all methods, operators, in-place forms,
                   insert/pop/__getitem__; arguments of every accepted kind: list and
                   tuple with duplicates, generator, set, frozenset, dict, dict keys,
                   another OrderedSet, self; 0/1/2 arguments) from EVERY state with <= 3
                   of 4 elements and every argument sequence of length <= 3 -- exhaustive,
                   and since the structural invariant is checked after each step this is
                   an inductive cover of the sequences; plus random sequences <= 30 over
                   a hostile universe (1 / 1.0 / True, hash collisions, an unhashable).
  B IdentitySet  : same scheme over objects that are all ``==`` with one hash, and
                   unhashable ones: only identity can be right.
  C immutabledict: every mutator must raise TypeError and leave the contents alone;
                   union / merge_with / ``|`` / reflected ``|`` against a dict model with
                   dict, immutabledict, None, OrderedDict, mappingproxy, UserDict, empty and
                   self arguments; results must not alias mutable arguments (they are
                   poked after the call), must be immutabledict, copies must be
                   independent, pickle round trip.
  D LRUCache     : value returned for a key is the value last stored under that key; a
                   key never stored / deleted is absent; after ``__setitem__`` size <=
                   capacity*(1+threshold); none of the ``capacity`` most recently used
                   keys is ever evicted.  Exhaustive short sequences + random long ones.
                   D3: misbehaving user callables -- the ``size_alert`` hook raises Exception /
                   BaseException at its n-th call (once, or from then on), or re-enters the
                   cache (set / delete / get): only the callback's own exception may escape
                   ``__setitem__``, and every later insert must restore the size bound and keep
                   the most recently used keys (a leaked internal lock shows as unbounded growth).
                   IdentitySet members whose __hash__ / __eq__ raise must never notice (identity
                   only); immutabledict.union with a Mapping that raises leaves the subject intact.
                   D2: interleaving injection -- at every line of ``_manage_size`` (via
                   sys.monitoring LINE events) another "thread" deletes / stores / reads
                   entries; the outer ``__setitem__`` must not raise and values stay right.

Guards (what is deliberately NOT asserted)
  * which of several equal-but-distinct elements (1 / 1.0 / True) an OrderedSet keeps;
  * IdentitySet iteration order and which element ``pop()`` returns (the model follows
    the real object's choice);
  * exact LRU trimming size (trim-to-capacity is implementation detail) and recency
    effects of ``in`` (MutableMapping.__contains__ goes through __getitem__);
  * operators are given AbstractSet / IdentitySet operands as annotated; methods get
    every iterable kind;
  * OrderedSet members whose __hash__/__eq__ raise in the middle of an operation are NOT
    generated: OrderedSet updates its set part and its list part in two steps (remove,
    discard, pop, *_update leave them out of step when a member comparison raises) - members
    with failing comparisons are not an "accepted kind" of argument in the property text.

Known on the unchanged tree (kept firing with their own stable mechanisms):
  * ``orderedset-symdiff-update-dup-list``: ``symmetric_difference_update`` with a
    non-set iterable containing duplicates appends the duplicates to the order list.
  * ``identityset-ixor-noop``: ``IdentitySet.__ixor__`` computes the symmetric
    difference and throws it away.
"""
from __future__ import annotations

import itertools

META = {
    "id": "C54",
    "level": "exploration",
    "technique": "lock-step reference-model oracle on every operation (exhaustive single steps from every small state + invariant = inductive cover; random long sequences; LINE-event interleaving injection for LRUCache)",
    "level_text": "Exhaustive: every operation x argument kind x argument sequence (len<=3, duplicates included) from every OrderedSet / IdentitySet state of <=3 of 4 elements (quick: states over 3 of them, arguments over all 4), every immutabledict operation from every content over 3 keys, every LRUCache sequence of <=3 (quick) / <=4 (thorough) operations for 9 (capacity, threshold) pairs; plus seeded random sequences up to 30-60 steps. Run against the compiled extension and against the .py sources.",
    "level_note": "Models are ~300 lines of dict-based specification (trusted). OrderedSet/IdentitySet/immutabledict live in *_cy modules: the cext run judges the shipped .so, the purepy run the current .py. LRUCache thread-safety is exercised by deterministic single-thread interleaving injection at line granularity, not by free-running threads; intra-line races are out of reach.",
    "design_ref": "DESIGN.md section 4, C54",
    "rule": "case = (collection, initial state, operation sequence); non-trivial = the sequence contains an operation taking an argument collection or changes the state; distinct by the full descriptor",
    "shards": {"quick": 8, "thorough": 16},
    "modes": ["cext", "purepy"],
    "soft_s": {"quick": 150, "thorough": 800},
    "exhaustive": {"quick": True, "thorough": True},
    "require": ["os_ops", "os_invariant_checks", "os_dup_args", "is_ops", "im_ops", "im_mutator_attempts",
                "lru_ops", "lru_evictions_seen", "lru_bound_checks", "lru_injections", "alias_probes",
                "lru_size_alert_calls", "lru_callback_faults", "lru_sets_after_fault", "is_faulty_member_ops",
                "im_faulty_mapping_args"],
    "assumptions": ["reference models in vf/models/collections_gf.py are correct"],
}

SYM = {"|": "or", "&": "and", "-": "sub", "^": "xor", "+": "add", "|=": "ior", "&=": "iand", "-=": "isub",
       "^=": "ixor", "<=": "le", "<": "lt", ">=": "ge", ">": "gt", "==": "eq", "!=": "ne"}


def opname(op):
    if op[0] == "m":
        return op[1]
    if op[0] in ("op", "iop"):
        return SYM[op[1]]
    return op[0]


def has_dups(U, idxs):
    seen = []
    for i in idxs:
        e = U[i]
        for s in seen:
            try:
                if s == e and hash(s) == hash(e):
                    return True
            except TypeError:
                if s is e:
                    return True
        seen.append(e)
    return False


# ------------------------------------------------------------------ OrderedSet
def judge_os(ctx, U, init, ops_done, op, real, model):
    """returns True when real and model agree (sequence may continue)."""
    from vf.gen.collops_gf import os_invariant_ok

    (robs, rsnap), (mobs, msnap) = real, model
    ctx.count("os_ops")
    ctx.count("os_invariant_checks")
    name = opname(op)
    aspect = None
    if not os_invariant_ok(rsnap):
        aspect = "invariant"
    elif robs != mobs:
        if robs[0] == "exc" or mobs[0] == "exc":
            aspect = "exception"
        elif robs[0] == "coll" and mobs[0] == "coll" and robs[1:3] == mobs[1:3] and robs[4]:
            aspect = "result-order" if sorted(map(repr, robs[3])) == sorted(map(repr, mobs[3])) else "result-contents"
        elif robs[0] == "coll" and not robs[4]:
            aspect = "result-invariant"
        else:
            aspect = "return"
    elif rsnap["list"] != msnap["list"]:
        same = sorted(map(repr, rsnap["list"])) == sorted(map(repr, msnap["list"]))
        aspect = "order" if same else "contents"
        if -1 in rsnap["list"]:
            aspect = "alias"
    if aspect is None:
        return True
    mech = f"orderedset-{name}-{aspect}"
    if name in ("symmetric_difference_update", "ixor") and aspect in ("invariant", "contents", "order"):
        kind, idxs = op[2][0] if op[0] == "m" else op[2]
        lst = [repr(x) for x in rsnap["list"]]
        if kind in ("list", "tuple", "gen") and has_dups(U, idxs) and len(set(lst)) < len(lst):
            mech = "orderedset-symdiff-update-dup-list"
    ctx.violation(
        mech,
        f"OrderedSet({[U[i] for i in init]!r}) after {ops_done + [op]!r}: observed {robs!r} list={rsnap['list']} "
        f"setview={rsnap['view']} len={rsnap['len']}; model {mobs!r} list={msnap['list']}",
        {"universe": [repr(u) for u in U], "init": init, "ops": ops_done + [op], "real": [robs, rsnap],
         "model": [mobs, msnap]},
    )
    return False


def run_os(ctx, sides):
    from vf.gen import collops_gf as G

    rng = ctx.rng
    # ---- A1 exhaustive single steps
    U = [10, 20, 30, 40]
    # quick: states over 3 of the 4 elements (the 4th only arrives through arguments)
    states = [list(p) for n in range(4) for p in itertools.permutations(range(ctx.pick({"quick": 3, "thorough": 4})), n)]
    seqs = [s for n in range(4) for s in itertools.product(range(4), repeat=n)]
    alphabet = G.os_alphabet(4, seqs)
    ctx.maxi("os_alphabet_size", len(alphabet))
    idx = 0
    for st in states:
        for op in alphabet:
            idx += 1
            if not ctx.mine(idx):
                continue
            if (idx & 0xFFF) == 0 and not ctx.budget_ok():
                return
            argful = op[0] in ("m", "op", "iop")
            if argful:
                descs = op[2] if op[0] == "m" else [op[2]]
                if any(len(set(d[1])) < len(d[1]) and d[0] in ("list", "tuple", "gen") for d in descs):
                    ctx.count("os_dup_args")
                for d in descs:
                    ctx.seen("os_arg_kinds", d[0])
            ctx.seen("os_operations", opname(op))
            for o, recs in G.os_sequence(sides, U, st, [op]):
                if o[0] == "init":
                    continue
                if recs[0][0][0] == "coll":
                    ctx.count("alias_probes")
                judge_os(ctx, U, st, [], o, recs[0], recs[1])
            ctx.case({"os": st, "op": op}, nontrivial=argful)
    ctx.count("os_exhaustive_single_done")
    # ---- A2 sequences of 2..3 steps from the same alphabet (seeded sample) and
    # ---- A3 random long sequences over a hostile universe
    H = [1, 1.0, True, 0, False, "a", "b", (1, 2), None, frozenset({1}), -1, -2, 2 ** 61 - 1, 2 ** 61, 0.5,
         ["unhashable"]]
    hn = len(H) - 1
    n2 = ctx.pick({"quick": 2500, "thorough": 60000})
    n3 = ctx.pick({"quick": 1200, "thorough": 30000})
    for k in range(n2 + n3):
        if (k & 0x3F) == 0 and not ctx.budget_ok():
            return
        if k < n2:
            UU = U
            st = rng.choice(states)
            ops = [rng.choice(alphabet) for _ in range(rng.choice([2, 3]))]
        else:
            UU = H
            st = []
            for _ in range(rng.randint(0, 6)):
                i = rng.randrange(hn)
                st.append(i)
            ops = [G.os_random_op(rng, len(H), hashable_n=hn) for _ in range(rng.randint(4, 30))]
        done = []
        for o, recs in G.os_sequence(sides, UU, st, ops):
            if o[0] == "init":
                continue
            if o[0] == "m" and any(has_dups(UU, d[1]) and d[0] in ("list", "tuple", "gen") for d in o[2]):
                ctx.count("os_dup_args")
            if recs[0][0][0] == "coll":
                ctx.count("alias_probes")
            if recs[0][0][0] == "exc":
                ctx.count("os_exceptions_agreed")
            if not judge_os(ctx, UU, st, done, o, recs[0], recs[1]):
                break
            done.append(o)
        ctx.case({"os": st, "ops": ops, "u": len(UU)}, nontrivial=True)
        if k in (0, n2):
            ctx.sample({"collection": "OrderedSet", "universe": [repr(u) for u in UU], "init": st, "ops": ops[:6]})


# ------------------------------------------------------------------ IdentitySet
def judge_is(ctx, U, init, ops_done, op, real, model, prev_real):
    (robs, rsnap), (mobs, msnap) = real, model
    ctx.count("is_ops")
    name = opname(op)
    aspect = None
    if not rsnap["nodup"] or rsnap["len"] != len(rsnap["ids"]):
        aspect = "invariant"
    elif robs != mobs:
        aspect = "exception" if (robs[0] == "exc" or mobs[0] == "exc") else "return"
    elif rsnap["ids"] != msnap["ids"]:
        aspect = "alias" if "-1" in rsnap["ids"] else "contents"
    if aspect is None:
        return True
    mech = f"identityset-{name}-{aspect}"
    if op[0] == "iop" and op[1] == "^=" and aspect == "contents" and prev_real is not None \
            and rsnap["ids"] == prev_real["ids"] and robs == mobs:
        mech = "identityset-ixor-noop"
    ctx.violation(
        mech,
        f"IdentitySet({init}) after {ops_done + [op]!r}: observed {robs!r} members={rsnap['ids']}; "
        f"model {mobs!r} members={msnap['ids']}",
        {"universe": [repr(u) for u in U], "init": init, "ops": ops_done + [op], "real": [robs, rsnap],
         "model": [mobs, msnap]},
    )
    return False


def run_is(ctx, sides):
    from vf.gen import collops_gf as G

    rng = ctx.rng
    U = [G.Hostile(0), [], G.Hostile(1), 7]
    states = [list(p) for n in range(4) for p in itertools.permutations(range(ctx.pick({"quick": 3, "thorough": 4})), n)]
    seqs = [s for n in range(4) for s in itertools.product(range(4), repeat=n)]
    alphabet = G.is_alphabet(4, seqs)
    ctx.maxi("is_alphabet_size", len(alphabet))
    idx = 0
    for st in states:
        for op in alphabet:
            idx += 1
            if not ctx.mine(idx):
                continue
            if (idx & 0xFFF) == 0 and not ctx.budget_ok():
                return
            prev = None
            for o, recs in G.is_sequence(sides, U, st, [op], follow_pop=True):
                if o[0] == "init":
                    prev = recs[0][1]
                    continue
                if recs[0][0][0] == "coll":
                    ctx.count("alias_probes")
                judge_is(ctx, U, st, [], o, recs[0], recs[1], prev)
            ctx.seen("is_operations", opname(op))
            ctx.case({"is": st, "op": op}, nontrivial=op[0] in ("m", "op", "iop", "ctor"))
    ctx.count("is_exhaustive_single_done")
    H = [G.Hostile(i) for i in range(4)] + [[], [], {}, 7, "s", (1,), None, 1.0]
    n = ctx.pick({"quick": 1500, "thorough": 40000})
    for k in range(n):
        if (k & 0x3F) == 0 and not ctx.budget_ok():
            return
        st = [rng.randrange(len(H)) for _ in range(rng.randint(0, 6))]
        ops = [G.is_random_op(rng, len(H)) for _ in range(rng.randint(4, 30))]
        done = []
        prev = None
        for o, recs in G.is_sequence(sides, H, st, ops, follow_pop=True):
            if o[0] != "init":
                if recs[0][0][0] == "coll":
                    ctx.count("alias_probes")
                if not judge_is(ctx, H, st, done, o, recs[0], recs[1], prev):
                    break
                done.append(o)
            prev = recs[0][1]
        ctx.case({"is": st, "ops": ops}, nontrivial=True)
        if k == 0:
            ctx.sample({"collection": "IdentitySet", "init": st, "ops": ops[:6]})


# ---------------------------------------------------------------- immutabledict
def judge_im(ctx, init, ops_done, op, real, model, prev_items):
    from vf.gen.collops_gf import IM_MUTATORS

    (robs, ritems), (mobs, mitems) = real, model
    ctx.count("im_ops")
    aspect = None
    if op[0] in IM_MUTATORS:
        ctx.count("im_mutator_attempts")
        if ritems != prev_items:
            aspect = "mutated"
        elif robs != ("exc", "TypeError"):
            aspect = "no-typeerror"
    if aspect is None and robs != mobs:
        if robs[0] == "exc" or mobs[0] == "exc":
            aspect = "exception"
        elif robs[0] == "imm" and mobs[0] == "imm" and not robs[1]:
            aspect = "result-type"
        elif robs[0] == "imm" and any("__poked__" in k for k, _ in robs[2]):
            aspect = "result-aliases-argument"
        else:
            aspect = "result"
    if aspect is None and ritems != mitems:
        aspect = "contents"
    if aspect is None:
        return True
    ctx.violation(
        f"immutabledict-{op[0]}-{aspect}",
        f"immutabledict({init}) after {ops_done + [op]!r}: observed {robs!r} items={ritems}; model {mobs!r} items={mitems}",
        {"init": init, "ops": ops_done + [op], "real": [robs, ritems], "model": [mobs, mitems]},
    )
    return False


def run_im(ctx, sides):
    from vf.gen import collops_gf as G

    rng = ctx.rng
    space = G.im_pairs_space()
    alphabet, descs = G.im_alphabet(space)
    small = [d for d in descs if d[0] in ("dict", "imm", "userdict") and all(k < 2 for k, _ in d[1])] + \
            [["none", []], ["empty_dict", []], ["empty_imm", []]]
    for a in small:
        for b in small:
            alphabet.append(["union", [a, b]])
            alphabet.append(["merge_with", [a, b]])
    ctx.maxi("im_alphabet_size", len(alphabet))
    idx = 0
    for init in space:
        for op in alphabet:
            idx += 1
            if not ctx.mine(idx):
                continue
            if (idx & 0xFFF) == 0 and not ctx.budget_ok():
                return
            prev = None
            for o, recs in G.im_sequence(sides, init, [op]):
                if o[0] == "init":
                    prev = recs[0][1]
                    continue
                if recs[0][0][0] == "imm":
                    ctx.count("alias_probes")
                judge_im(ctx, init, [], o, recs[0], recs[1], prev)
            ctx.seen("im_operations", op[0])
            ctx.case({"im": init, "op": op}, nontrivial=op[0] in ("union", "merge_with", "or", "ror") or op[0] in G.IM_MUTATORS)
    ctx.count("im_exhaustive_single_done")
    n = ctx.pick({"quick": 1500, "thorough": 40000})
    for k in range(n):
        if (k & 0x3F) == 0 and not ctx.budget_ok():
            return
        init = rng.choice(space)
        ops = [G.im_random_op(rng, descs) for _ in range(rng.randint(3, 20))]
        done = []
        prev = None
        for o, recs in G.im_sequence(sides, init, ops):
            if o[0] != "init":
                if not judge_im(ctx, init, done, o, recs[0], recs[1], prev):
                    break
                done.append(o)
            prev = recs[0][1]
        ctx.case({"im": init, "ops": ops}, nontrivial=True)
        if k == 0:
            ctx.sample({"collection": "immutabledict", "init": init, "ops": ops[:5]})


# --------------------------------------------------------------------- LRUCache
class LruRun:
    """one LRUCache + MLRU pair; ops: ("set",k) ("get",k) ("getitem",k) ("del",k) ("in",k)
    ("len",) ("iter",) ("values",)"""

    def __init__(self, ctx, LRUCache, capacity, threshold, hook=None):
        from vf.models.collections_gf import MLRU

        self.ctx = ctx
        self.hook = hook  # user-supplied size_alert callable (may raise / re-enter the cache)
        self.fault_raised = None
        self.faulted = False
        self.cache = LRUCache(capacity, threshold, size_alert=hook) if hook is not None else LRUCache(capacity, threshold)
        self.m = MLRU(capacity, threshold)
        self.serial = 0
        self.recency_known = True
        self.desc = {"capacity": capacity, "threshold": threshold, "ops": []}

    def fail(self, aspect, msg):
        self.ctx.violation(f"lrucache-{aspect}", f"LRUCache({self.m.capacity}, {self.m.threshold}) ops={self.desc['ops']}: {msg}", dict(self.desc))
        return False

    def sync(self, after_set):
        """compare presence/values; account evictions."""
        ctx, cache, m = self.ctx, self.cache, self.m
        real = {k: cache._data[k][1] for k in list(cache._data)}  # raw read: no recency effect
        for k, v in real.items():
            if k not in m.data:
                return self.fail("phantom-key", f"key {k!r} present but never stored / was deleted")
            if v != m.data[k]:
                return self.fail("wrong-value", f"key {k!r} holds {v!r}, last stored {m.data[k]!r}")
        evicted = [k for k in m.data if k not in real]
        if evicted:
            ctx.count("lru_evictions_seen", len(evicted))
            if self.recency_known:
                keep = m.must_retain()
                bad = [k for k in evicted if k in keep]
                if bad:
                    return self.fail("evicted-recently-used", f"evicted {bad!r}, but the {m.capacity} most recently used keys are {keep!r}")
            for k in evicted:
                m.delete(k)
        if after_set:
            ctx.count("lru_bound_checks")
            if len(cache) > m.bound():
                return self.fail("size-over-bound", f"len={len(cache)} > capacity*(1+threshold)={m.bound()}")
        return True

    def step(self, op):
        ctx, cache, m = self.ctx, self.cache, self.m
        self.desc["ops"].append(list(op))
        ctx.count("lru_ops")
        kind = op[0]
        k = op[1] if len(op) > 1 else None
        if kind == "set":
            self.serial += 1
            v = (k, self.serial)
            if self.hook is None:
                cache[k] = v
                m.store(k, v)
                return self.sync(True)
            # the entry is stored before the size check runs, and the callback (which may
            # re-enter the cache) runs inside the call: the model stores first
            m.store(k, v)
            self.fault_raised = None
            try:
                cache[k] = v
                raised = None
            except BaseException as e:  # noqa: BLE001 - the callback may raise BaseException
                raised = e
            if raised is not None:
                if raised is not self.fault_raised:
                    if isinstance(raised, (KeyboardInterrupt, SystemExit)):
                        raise raised
                    return self.fail("setitem-raises", f"__setitem__({k!r}) raised {raised!r} (not the callback's exception)")
                ctx.count("lru_callback_faults")
                self.faulted = True
                return self.sync(False)  # the failing call need not have trimmed
            if self.fault_raised is not None:
                return self.sync(False)  # exception swallowed: trimming of this call unspecified
            if self.faulted:
                ctx.count("lru_sets_after_fault")
            return self.sync(True)
        if kind in ("get", "getitem", "in"):
            known = k in m.data
            try:
                if kind == "get":
                    got = cache.get(k, "absent")
                elif kind == "getitem":
                    got = cache[k]
                else:
                    got = "present" if k in cache else "absent"
                    self.recency_known = False  # guard: `in` goes through __getitem__
            except KeyError:
                got = "absent"
            if got == "absent":
                if known and k in cache._data:
                    return self.fail("lookup-misses-present-key", f"{kind}({k!r}) found nothing but the key is stored")
                if known:
                    return self.sync(False)
            else:
                if not known:
                    return self.fail("phantom-key", f"{kind}({k!r}) returned {got!r} for a key never stored / deleted")
                if kind != "in" and got != m.data[k]:
                    return self.fail("wrong-value", f"{kind}({k!r}) returned {got!r}, last stored {m.data[k]!r}")
                m.touch(k)
            return self.sync(False)
        if kind == "del":
            try:
                del cache[k]
                deleted = True
            except KeyError:
                deleted = False
            if deleted != (k in m.data):
                if deleted:
                    return self.fail("phantom-key", f"del {k!r} succeeded for a key not stored")
                # model thinks present, real says absent: must have been an (unsynced) eviction -> impossible after sync
                return self.fail("lookup-misses-present-key", f"del {k!r} raised KeyError but the key is stored")
            m.delete(k)
            return self.sync(False)
        if kind == "len":
            if len(cache) != len(m.data):
                return self.fail("len", f"len={len(cache)} model={len(m.data)}")
            return True
        if kind == "iter":
            if sorted(map(repr, cache)) != sorted(map(repr, m.data)):
                return self.fail("iter", f"keys={list(cache)!r} model={list(m.data)!r}")
            return True
        if kind == "values":
            if sorted(map(repr, cache.values())) != sorted(map(repr, m.data.values())):
                return self.fail("values", f"values={list(cache.values())!r}")
            return True
        raise AssertionError(op)


def run_lru(ctx):
    from sqlalchemy.util import LRUCache

    rng = ctx.rng
    configs = [(c, t) for c in (1, 2, 3) for t in (0, 0.5, 1.0)]
    keys = range(4)
    base_ops = [(k_, i) for k_ in ("set", "get", "getitem", "del") for i in keys]
    L = ctx.pick({"quick": 3, "thorough": 4})
    idx = 0
    for cap, thr in configs:
        # prefix: fill beyond the bound once so that evictions are in play, then all sequences
        for seq in itertools.product(base_ops, repeat=L):
            idx += 1
            if not ctx.mine(idx):
                continue
            if (idx & 0x3FF) == 0 and not ctx.budget_ok():
                return
            r = LruRun(ctx, LRUCache, cap, thr)
            ok = True
            for op in [("set", 7), ("set", 8), ("get", 7)] + list(seq) + [("set", 9), ("len",), ("iter",), ("values",)]:
                if not r.step(op):
                    ok = False
                    break
            ctx.case({"lru": [cap, thr], "seq": seq}, nontrivial=any(o[0] == "set" for o in seq))
    ctx.count("lru_exhaustive_done")
    n = ctx.pick({"quick": 400, "thorough": 12000})
    for k in range(n):
        if (k & 0x1F) == 0 and not ctx.budget_ok():
            return
        cap = rng.randint(1, 6)
        thr = rng.choice([0, 0.1, 0.25, 0.5, 1.0, 2.0])
        nk = rng.randint(cap, cap * 4 + 2)
        r = LruRun(ctx, LRUCache, cap, thr)
        use_in = rng.random() < 0.2
        ops = []
        for _ in range(rng.randint(10, 60)):
            x = rng.random()
            kk = rng.randrange(nk)
            if x < 0.45:
                ops.append(("set", kk))
            elif x < 0.65:
                ops.append(("get", kk))
            elif x < 0.8:
                ops.append(("getitem", kk))
            elif x < 0.9:
                ops.append(("del", kk))
            elif x < 0.94 and use_in:
                ops.append(("in", kk))
            else:
                ops.append(rng.choice([("len",), ("iter",), ("values",)]))
        for op in ops:
            if not r.step(op):
                break
        ctx.case({"lru": [cap, thr], "ops": ops}, nontrivial=True)
        if k == 0:
            ctx.sample({"collection": "LRUCache", "capacity": cap, "threshold": thr, "ops": ops[:8]})


class CallbackFault(Exception):
    pass


class CallbackBaseFault(BaseException):
    """a BaseException (cancellation / interrupt style) raised inside a user callback"""


def run_lru_callbacks(ctx, LRUCache):
    """User-supplied callables that misbehave: the ``size_alert`` hook raises (Exception or
    BaseException) at its n-th call, or re-enters the cache (set / delete / get), or does
    nothing.  The failing ``__setitem__`` may propagate the callback's exception; afterwards
    the cache must still satisfy the model: values right, no phantom keys, size within
    capacity*(1+threshold) after every later successful insert, most recently used kept.
    Not sharded by time: a fixed enumeration (guaranteed minimum case count)."""
    rng = ctx.rng
    actions = ("raise-exc", "raise-base", "raise-exc-always", "reenter-set", "reenter-del", "reenter-get", "noop")
    rounds = ctx.pick({"quick": 3, "thorough": 25})
    idx = 0
    for cap, thr in [(1, 0), (2, 0.5), (3, 1.0), (5, 0.25), (4, 0), (10, 0.5)]:
        for action in actions:
            for nth in (1, 2, 3):
                for rnd in range(rounds):
                    idx += 1
                    if not ctx.mine(idx):
                        continue
                    state = {"calls": 0}
                    holder = {}

                    def hook(cache, action=action, nth=nth, state=state, holder=holder):
                        r = holder["r"]
                        state["calls"] += 1
                        ctx.count("lru_size_alert_calls")
                        hit = state["calls"] == nth or (action == "raise-exc-always" and state["calls"] >= nth)
                        if not hit:
                            return
                        if action in ("raise-exc", "raise-exc-always"):
                            r.fault_raised = CallbackFault(f"size_alert call {state['calls']}")
                            raise r.fault_raised
                        if action == "raise-base":
                            r.fault_raised = CallbackBaseFault(f"size_alert call {state['calls']}")
                            raise r.fault_raised
                        ks = list(cache._data)
                        if action == "reenter-set":
                            r.serial += 1
                            nk = 10000 + r.serial
                            r.m.store(nk, (nk, r.serial))
                            cache[nk] = (nk, r.serial)
                        elif action == "reenter-del" and ks:
                            k0 = min(ks, key=lambda k: cache._data[k][2][0])
                            del cache[k0]
                            r.m.delete(k0)
                        elif action == "reenter-get" and ks:
                            k0 = min(ks, key=lambda k: cache._data[k][2][0])
                            cache.get(k0)
                            r.m.touch(k0)

                    r = LruRun(ctx, LRUCache, cap, thr, hook=hook)
                    holder["r"] = r
                    r.desc["size_alert"] = [action, nth]
                    bound = int(cap * (1 + thr))
                    nkeys = 4 * bound + 8
                    nxt = 0
                    for step in range(ctx.pick({"quick": 45, "thorough": 90}) + 3 * bound):
                        x = rng.random()
                        if x < 0.6:
                            nxt += 1
                            op = ("set", 100 + nxt)          # fresh key: grows the cache
                        elif x < 0.75:
                            op = ("set", rng.randrange(nkeys))
                        elif x < 0.85:
                            op = ("get", rng.randrange(nkeys))
                        elif x < 0.93:
                            op = ("getitem", 100 + rng.randint(max(1, nxt - bound), max(1, nxt)))
                        else:
                            op = ("del", rng.randrange(nkeys))
                        if not r.step(op):
                            break
                    else:
                        # quiescent: two more inserts must leave the cache within its bound
                        for kx in (90001, 90002):
                            if not r.step(("set", kx)):
                                break
                    ctx.count("lru_callback_runs")
                    ctx.case({"lru-callback": [cap, thr, action, nth, rnd]}, nontrivial=state["calls"] > 0)
                    if idx <= 2:
                        ctx.sample({"collection": "LRUCache", "size_alert": [action, nth], "capacity": cap, "threshold": thr,
                                    "ops": r.desc["ops"][:10]})


def run_lru_injection(ctx, LRUCache):
    """Another thread's effect at every line of _manage_size / __setitem__ / get, injected
    deterministically from a sys.monitoring LINE callback (what a pre-empting thread could
    do between two lines).  The outer call must not raise; values stay consistent."""
    from vf.mon.lineinject_gf import LineInjector

    rng = ctx.rng
    code = LRUCache._manage_size.__code__
    lines = sorted({ln for _, _, ln in code.co_lines() if ln is not None and ln > code.co_firstlineno})
    actions = ("del-oldest", "del-newest", "del-all", "set-new", "set-existing", "get-oldest")
    rounds = ctx.pick({"quick": 2, "thorough": 12})
    idx = 0
    for cap, thr in [(2, 0.5), (3, 0), (1, 1.0), (4, 0.25)]:
        for line in lines:
            for action in actions:
                for nth in (1, 2):
                    for rnd in range(rounds):
                        idx += 1
                        if not ctx.mine(idx):
                            continue
                        cache = LRUCache(cap, thr)
                        stored = {}
                        serial = [0]

                        def put(k, cache=cache, stored=stored, serial=serial):
                            serial[0] += 1
                            v = (k, serial[0])
                            stored[k] = v
                            cache[k] = v

                        fired = []

                        def other_thread(cache=cache, stored=stored, action=action, fired=fired, put=put):
                            ks = list(cache._data)
                            fired.append(action)
                            if action == "del-oldest" and ks:
                                k = min(ks, key=lambda k: cache._data[k][2][0])
                                try:
                                    del cache[k]
                                except KeyError:
                                    pass
                                stored.pop(k, None)
                            elif action == "del-newest" and ks:
                                k = max(ks, key=lambda k: cache._data[k][2][0])
                                del cache[k]
                                stored.pop(k, None)
                            elif action == "del-all":
                                for k in ks:
                                    try:
                                        del cache[k]
                                    except KeyError:
                                        pass
                                    stored.pop(k, None)
                            elif action == "set-new":
                                put(1000 + len(fired))
                            elif action == "set-existing" and ks:
                                put(ks[0])
                            elif action == "get-oldest" and ks:
                                cache.get(ks[0])

                        n_fill = int(cap * (1 + thr)) + rng.randint(0, 1)
                        for k in range(n_fill):
                            put(k)
                        inj = LineInjector(code, line, other_thread, nth=nth)
                        err = None
                        with inj:
                            try:
                                put(500)
                                put(501)
                            except Exception as e:  # noqa: BLE001 - any escape is the finding
                                err = e
                        ctx.count("lru_injection_runs")
                        if inj.fired:
                            ctx.count("lru_injections")
                        desc = {"capacity": cap, "threshold": thr, "line": line - code.co_firstlineno,
                                "action": action, "nth": nth, "prefill": n_fill}
                        if err is not None:
                            ctx.violation(
                                f"lrucache-setitem-raises-under-interleaving-{type(err).__name__}",
                                f"__setitem__ raised {err!r} when another thread did {action} at _manage_size+{desc['line']}",
                                desc)
                        else:
                            for k in list(cache._data):
                                v = cache._data[k][1]
                                if k not in stored or stored[k] != v:
                                    ctx.violation("lrucache-wrong-value-under-interleaving",
                                                  f"key {k!r} -> {v!r}, last stored {stored.get(k)!r}", desc)
                                    break
                            # quiescent again: one more store must restore the bound
                            put(502)
                            if len(cache) > cap * (1 + thr):
                                ctx.violation("lrucache-size-over-bound-after-interleaving",
                                              f"len={len(cache)} bound={cap * (1 + thr)}", desc)
                        ctx.case({"inj": desc, "rnd": rnd}, nontrivial=bool(inj.fired))


class Raiser:
    """a member whose __hash__ and __eq__ always raise: an identity-keyed set must never call them"""

    __slots__ = ("n",)

    def __init__(self, n):
        self.n = n

    def __hash__(self):
        raise CallbackFault("__hash__ called")

    def __eq__(self, other):
        raise CallbackFault("__eq__ called")

    __ne__ = __eq__

    def __repr__(self):
        return f"Raiser{self.n}"


def run_faulty_members(ctx, sides):
    """IdentitySet over members with raising __hash__/__eq__ (lock-step with the model, which
    only uses id()); immutabledict.union / merge_with / constructor with a Mapping that raises
    part-way: the exception propagates and the subject is untouched and still usable."""
    import collections.abc

    from vf.gen import collops_gf as G

    rng = ctx.rng
    H = [Raiser(i) for i in range(5)] + [[], 7]
    n = ctx.pick({"quick": 60, "thorough": 1500})
    for k in range(n):
        st = [rng.randrange(len(H)) for _ in range(rng.randint(0, 5))]
        ops = [G.is_random_op(rng, len(H)) for _ in range(rng.randint(4, 25))]
        done = []
        prev = None
        for o, recs in G.is_sequence(sides, H, st, ops, follow_pop=True):
            if o[0] != "init":
                ctx.count("is_faulty_member_ops")
                if not judge_is(ctx, H, st, done, o, recs[0], recs[1], prev):
                    break
                done.append(o)
            prev = recs[0][1]
        ctx.case({"is-raisers": st, "ops": ops}, nontrivial=True)

    immutabledict = sides[0].immutabledict

    class BadMapping(collections.abc.Mapping):
        def __init__(self, d, fail_at, where):
            self.d, self.fail_at, self.where, self.n = d, fail_at, where, 0

        def _tick(self, where):
            if where == self.where:
                self.n += 1
                if self.n >= self.fail_at:
                    raise CallbackFault(where)

        def __getitem__(self, k):
            self._tick("getitem")
            return self.d[k]

        def __iter__(self):
            self._tick("iter")
            for k in self.d:
                self._tick("next")
                yield k

        def keys(self):
            self._tick("keys")
            return super().keys()

        def __len__(self):
            return len(self.d)

    for init in ({}, {"a": 1}, {"a": 1, "b": 2}):
        for where in ("getitem", "iter", "next", "keys"):
            for fail_at in (1, 2):
                for meth in ("union", "merge_with", "ctor", "or"):
                    for pre in ((), ({"z": 0},)):
                        ctx.count("im_faulty_mapping_args")
                        subj = immutabledict(init)
                        bad = BadMapping({"b": 20, "c": 30}, fail_at, where)
                        desc = {"init": init, "where": where, "fail_at": fail_at, "method": meth, "pre": list(pre)}
                        try:
                            if meth == "ctor":
                                r = immutabledict(bad)
                            elif meth == "or":
                                r = subj | bad
                            else:
                                r = getattr(subj, meth)(*pre, bad)
                            exc = None
                        except (CallbackFault, TypeError) as e:
                            exc, r = e, None
                        if dict(subj) != init:
                            ctx.violation(f"immutabledict-{meth}-mutated-by-failing-argument",
                                          f"{init} became {dict(subj)} after {meth}() with a Mapping raising in {where}", desc)
                        elif exc is None and meth in ("union", "merge_with") and dict(r) != {**init, **dict(*pre), "b": 20, "c": 30}:
                            ctx.violation(f"immutabledict-{meth}-result", f"{meth} -> {dict(r)}", desc)
                        else:
                            again = subj.union({"q": 9})
                            if dict(again) != {**init, "q": 9} or type(again) is not immutabledict:
                                ctx.violation(f"immutabledict-{meth}-unusable-after-failing-argument", f"union -> {again!r}", desc)
                        ctx.case({"im-bad": desc}, nontrivial=True)


def run(ctx):
    from sqlalchemy import util
    from sqlalchemy.util import _collections_cy, _immutabledict_cy
    from vf.gen import collops_gf as G

    compiled = bool(_collections_cy._is_compiled())
    ctx.seen("collections_compiled", compiled)
    assert compiled == (ctx.mode == "cext"), "mode did not select the expected implementation"
    real = G.Side("real", util.OrderedSet, util.IdentitySet, util.immutabledict)
    assert util.OrderedSet is _collections_cy.OrderedSet and util.immutabledict is _immutabledict_cy.immutabledict
    sides = [real, G.model_side()]
    # fixed-size parts first: they must never be cut by the soft deadline on a loaded machine
    run_lru_callbacks(ctx, util.LRUCache)
    run_lru_injection(ctx, util.LRUCache)
    run_faulty_members(ctx, sides)
    run_os(ctx, sides)
    run_is(ctx, sides)
    run_im(ctx, sides)
    run_lru(ctx)
