"""C55 -- compiled and pure-Python implementations are interchangeable.

Monitor: a lock-step differential.  The seven dual modules are present twice in one
process: the shipped ``*.so`` (normal import) and the current ``*.py`` loaded beside it
with ``vf.modes.load_pure``; ``engine/row.py`` and ``engine/result.py`` are additionally
instantiated a second time on top of the pure ``_row_cy`` / ``_result_cy`` / ``_util_cy``
(``vf/mon/purefamily_gf.py``) so Row and Result objects exist in both flavours.  Every
driver feeds the same input / operation sequence to both flavours and compares return
values (type-strict normal form), exception *types*, and the observable state afterwards.

Drivers
  collections   OrderedSet / IdentitySet lock-step sequences (C54's generators), unique_list
  immutabledict lock-step sequences (C54's generators), ImmutableDictBase / ReadOnlyContainer
  processors    int_to_boolean, to_str, to_float, str_to_date/time/datetime on valid,
                boundary and malformed strings, to_decimal_processor_factory
  engine-util   _distill_params_20, _distill_raw_params (every argument shape, incl. the
                deprecation warning), tuplegetter
  sql-util      prefix_anon_map, anon_map (__getitem__/__missing__/get_anon)
  row           BaseRow via Row: construction with/without processors, index / slice /
                attribute / mapping access, missing keys, hash, comparisons, pickle both
                protocols, immutability
  result        C10's random call sequences on IteratorResult / ChunkedIteratorResult of
                both flavours (BaseResultInternal getters), observations compared call by call
  subclasses    the in-library PYTHON SUBCLASSES of the dual classes, found by walking
                __subclasses__() at run time (ColumnSet over OrderedSet; Row / RowMapping over
                BaseRow; the Result family over BaseResultInternal; anything that appears later):
                every public + inherited operation (copy, set algebra methods and operators,
                in-place forms, element ops; attribute / key / index access, hasattr, attrgetter,
                mapping protocol, pickling; Result views) with the *type* of each result, hash(),
                ==, and marker attributes recorded - transcript compared between this (compiled)
                process and a ``purepy`` subprocess, one mechanism per (class, operation);
                RowMapping is also compared in-process on the two Row families
  whole-library a deterministic Core + SQLite transcript (compile, params, typed rows, row
                lookup, truncated names) produced in this process (compiled) and in a
                ``purepy`` subprocess must be identical
  sanitizers    (thorough) the seven ``.c`` files are built with
                ``clang -O1 -g -fsanitize=address,undefined`` into a scratch copy of the
                library under /dev/shm, every driver above runs against that build in a
                subprocess with libasan preloaded; sanitizer report blocks in the log must
                be 0; the build is deleted.

Guards (normalisations; each is counted in the evidence under ``norm_*``)
  * exception *messages* and reprs of internal helper types are not compared;
  * arguments of the wrong *static* type (a non-str key for prefix_anon_map, a non-type for
    to_decimal_processor_factory, non-int tuplegetter indexes, ints beyond Py_ssize_t) are
    not generated: Cython rejects them earlier with another exception type, which the
    repository's own tests accept;
  * the .so cannot be regenerated from an edited .py here (no Cython): an edit to a .py
    shows up as a divergence, which is what "stale extension" means.
If the compiled modules are not importable the check is INCONCLUSIVE (required counter
``compiled_modules`` stays 0), never "held".
"""
from __future__ import annotations

import datetime
import decimal
import json
import os
import pickle
import subprocess
import sys
import warnings

META = {
    "id": "C55",
    "level": "exploration",
    "technique": "in-process lock-step differential: shipped .so vs current .py of the 7 dual modules (drivers per module + Row/Result families + whole-library transcript); ASan/UBSan build in thorough",
    "level_text": "Seeded differential drivers over the public surface of each dual module (collections and immutabledict with C54's sequence generators, processors on valid/boundary/malformed input, parameter distilling on every argument shape, anon maps, Row, Result call sequences from C10) and a whole-library transcript compared between a compiled and a pure-Python process. Thorough adds an AddressSanitizer+UBSan build of the seven C files running the same drivers.",
    "level_note": "Compares the *shipped* .so with the *current* .py: the extension cannot be rebuilt from edited sources here (no Cython), and the .c files are the generated ones found in the tree. Wrong-static-type arguments are excluded (see Guards). The sanitizer run covers only what the drivers execute.",
    "design_ref": "DESIGN.md section 4, C55",
    "rule": "case = one input / one operation sequence given to both flavours; non-trivial = the call reached the dual module with a non-empty / non-None input; distinct by the descriptor",
    "shards": {"quick": 8, "thorough": 16},
    "modes": ["cext"],
    "soft_s": {"quick": 150, "thorough": 800},
    "exhaustive": {"quick": False, "thorough": False},
    "require": ["compiled_modules", "pure_modules", "cmp_collections", "cmp_immutabledict", "cmp_processors",
                "cmp_engine_util", "cmp_sql_util", "cmp_row", "cmp_result", "wholelib_lines_compared",
                "exceptions_compared", "subclass_ops_compared", "cmp_rowmapping"],
    "assumptions": ["the .c files beside the .so are the sources the .so was built from (sanitizer run)"],
}

ASAN_RT = "/usr/lib/llvm-14/lib/clang/14.0.6/lib/linux/libclang_rt.asan-x86_64.so"


# ------------------------------------------------------------------ comparison kernel
def nz(v, depth=0):
    """type-strict normal form; classes of the two flavours are compared by name"""
    if depth > 6:
        return ("deep",)
    if isinstance(v, (list, tuple)):
        return (type(v).__name__, tuple(nz(x, depth + 1) for x in v))
    if isinstance(v, dict):
        return (type(v).__name__, tuple((nz(k, depth + 1), nz(x, depth + 1)) for k, x in v.items()))
    if isinstance(v, (set, frozenset)):
        return (type(v).__name__, tuple(nz(x, depth + 1) for x in v))
    if isinstance(v, float) and v != v:
        return ("float", "nan")
    if callable(v) and not isinstance(v, type):
        return ("callable", type(v).__name__, repr(v) if "itemgetter" in repr(v) else "")
    return (type(v).__name__, repr(v))


def call(fn, *a, **kw):
    with warnings.catch_warnings(record=True) as w:
        warnings.simplefilter("always")
        try:
            r = ("ret", nz(fn(*a, **kw)))
        except Exception as e:  # noqa: BLE001 - exception type is the observation
            r = ("exc", type(e).__name__)
    return r + (tuple(sorted(type(x.message).__name__ for x in w)),)


class Diff:
    def __init__(self, ctx, tag=""):
        self.ctx = ctx
        self.tag = tag

    def pair(self, area, what, desc, rc, rp, nontrivial=True):
        ctx = self.ctx
        ctx.count("cmp_" + area)
        if rc[0] == "exc" or rp[0] == "exc":
            ctx.count("exceptions_compared")
        ctx.case({"a": area, "w": what, "d": desc}, nontrivial=nontrivial)
        if rc == rp:
            return True
        if rc[0] != rp[0]:
            aspect = "raises-vs-returns"
        elif rc[0] == "exc":
            aspect = "exception-type"
        elif rc[:2] == rp[:2]:
            aspect = "warnings"
        else:
            aspect = "value"
        ctx.violation(
            f"{area}-{what}-{aspect}" + self.tag,
            f"{area}.{what}({desc!r}): compiled -> {rc!r}; pure python -> {rp!r}",
            {"area": area, "what": what, "input": desc, "compiled": rc, "pure": rp},
        )
        return False

    def fn(self, area, what, desc, fc, fp, *args, **kw):
        return self.pair(area, what, desc, call(fc, *args, **kw), call(fp, *args, **kw))


# --------------------------------------------------------------------------- drivers
def drv_collections(ctx, D, ps, rng, scale):
    from vf.gen import collops_gf as G

    C = ps.compiled["sqlalchemy.util._collections_cy"]
    P = ps.pure["sqlalchemy.util._collections_cy"]
    Ci = ps.compiled["sqlalchemy.util._immutabledict_cy"]
    Pi = ps.pure["sqlalchemy.util._immutabledict_cy"]
    sides = [G.Side("so", C.OrderedSet, C.IdentitySet, Ci.immutabledict),
             G.Side("py", P.OrderedSet, P.IdentitySet, Pi.immutabledict)]
    H = [1, 1.0, True, 0, False, "a", "b", (1, 2), None, frozenset({1}), -1, -2, 2 ** 61 - 1, 2 ** 61, 0.5, ["unhashable"]]
    hn = len(H) - 1
    for k in range(scale * 60):
        st = [rng.randrange(hn) for _ in range(rng.randint(0, 6))]
        ops = [G.os_random_op(rng, len(H), hashable_n=hn) for _ in range(rng.randint(3, 25))]
        done = []
        for o, recs in G.os_sequence(sides, H, st, ops):
            done.append(o)
            if not D.pair("collections", "OrderedSet." + (o[1] if o[0] in ("m", "op", "iop") else o[0]),
                          {"init": st, "ops": done}, ("ret", recs[0]), ("ret", recs[1]), nontrivial=len(done) > 1):
                break
    HI = [G.Hostile(i) for i in range(4)] + [[], [], {}, 7, "s", (1,), None, 1.0]
    for k in range(scale * 60):
        st = [rng.randrange(len(HI)) for _ in range(rng.randint(0, 6))]
        ops = [G.is_random_op(rng, len(HI)) for _ in range(rng.randint(3, 25))]
        done = []
        for o, recs in G.is_sequence(sides, HI, st, ops):
            done.append(o)
            if not D.pair("collections", "IdentitySet." + (o[1] if o[0] in ("m", "op", "iop") else o[0]),
                          {"init": st, "ops": done}, ("ret", recs[0]), ("ret", recs[1]), nontrivial=len(done) > 1):
                break
    # single steps from small states (a slice of C54's exhaustive space per shard)
    import itertools
    U = [10, 20, 30, 40]
    seqs = [s for n in range(3) for s in itertools.product(range(4), repeat=n)] + [(2, 2, 1), (0, 1, 0), (3, 3, 3)]
    alphabet = G.os_alphabet(4, seqs, multi=False)
    states = [[], [0], [1, 0], [2, 0, 1]]
    idx = 0
    for st in states:
        for op in alphabet:
            idx += 1
            if not ctx.mine(idx):
                continue
            for o, recs in G.os_sequence(sides, U, st, [op]):
                D.pair("collections", "OrderedSet." + (o[1] if o[0] in ("m", "op", "iop") else o[0]),
                       {"init": st, "op": o}, ("ret", recs[0]), ("ret", recs[1]), nontrivial=o[0] != "init")
    for k in range(scale * 40):
        n = rng.randint(0, 8)
        seq = [rng.choice(H[:hn] if rng.random() < 0.95 else H) for _ in range(n)]
        kind = rng.choice(["list", "tuple", "gen", "set"])
        def build():
            if kind == "gen":
                return (x for x in seq)
            try:
                return {"list": list, "tuple": tuple, "set": set}[kind](seq)
            except TypeError:
                return list(seq)
        D.pair("collections", "unique_list", {"kind": kind, "seq": [repr(x) for x in seq]},
               call(C.unique_list, build()), call(P.unique_list, build()), nontrivial=n > 1)


def drv_immutabledict(ctx, D, ps, rng, scale):
    from vf.gen import collops_gf as G

    Ci = ps.compiled["sqlalchemy.util._immutabledict_cy"]
    Pi = ps.pure["sqlalchemy.util._immutabledict_cy"]
    sides = [G.Side("so", immutabledict=Ci.immutabledict), G.Side("py", immutabledict=Pi.immutabledict)]
    space = G.im_pairs_space()
    alphabet, descs = G.im_alphabet(space)
    idx = 0
    for init in space[::3]:
        for op in alphabet:
            idx += 1
            if not ctx.mine(idx):
                continue
            for o, recs in G.im_sequence(sides, init, [op]):
                D.pair("immutabledict", o[0], {"init": init, "op": o}, ("ret", recs[0]), ("ret", recs[1]),
                       nontrivial=o[0] != "init")
    for k in range(scale * 50):
        init = rng.choice(space)
        ops = [G.im_random_op(rng, descs) for _ in range(rng.randint(3, 15))]
        done = []
        for o, recs in G.im_sequence(sides, init, ops):
            done.append(o)
            if not D.pair("immutabledict", o[0], {"init": init, "ops": done}, ("ret", recs[0]), ("ret", recs[1]),
                          nontrivial=len(done) > 1):
                break
    for cls in ("ImmutableDictBase", "ReadOnlyContainer"):
        for m, a in [("__setitem__", ("k", 1)), ("__delitem__", ("k",)), ("__setattr__", ("k", 1)), ("clear", ()),
                     ("pop", ("k",)), ("popitem", ()), ("setdefault", ("k",)), ("update", ({"k": 1},))]:
            def mk(mod):
                c = getattr(mod, cls)
                o = c() if cls == "ReadOnlyContainer" else c({"k": 0})
                return getattr(o, m)
            D.pair("immutabledict", f"{cls}.{m}", {"args": [repr(x) for x in a]},
                   call(lambda: mk(Ci)(*a)), call(lambda: mk(Pi)(*a)))


class _BadStr:
    def __str__(self):
        raise ValueError("no str")

    def __repr__(self):
        return "BadStr()"


DT_STRINGS = [
    "2020-01-02", "0001-01-01", "9999-12-31", "2024-02-29", "2023-02-29", "2020-13-01", "2020-00-10", "20200102",
    "2020-W01-1", "2020-1-2", "", " ", "abc", "2020-01-02T03:04:05", "2020-01-02 03:04:05", "2020-01-02 03:04:05.678",
    "2020-01-02 03:04:05.678901", "2020-01-02T03:04:05+05:30", "2020-01-02T03:04:05Z", "2020-01-02 25:00:00",
    "2020-01-02 03:60:00", "9999-12-31 23:59:59.999999", "0001-01-01 00:00:00", "03:04:05", "03:04", "3:4:5", "24:00:00",
    "23:59:59.999999", "00:00:00.000001", "03:04:05+01:00", "03:04:05.1234567", "2020-01-02T", "T03:04:05",
    "2020-01-02x03:04:05", "٣٠٢٠-01-02", "2020-01-02\x00", "١٢:٠٠:٠٠", "2020-01-02 03:04:05,5",
]


def drv_processors(ctx, D, ps, rng, scale):
    C = ps.compiled["sqlalchemy.engine._processors_cy"]
    P = ps.pure["sqlalchemy.engine._processors_cy"]
    vals = [None, 0, 1, 2, -1, True, False, 0.0, 1.5, -0.0, float("nan"), float("inf"), "", "0", "1", "1.5", "abc", " 2 ",
            "1e5", b"x", b"", [], [0], (), {}, decimal.Decimal("1.10"), decimal.Decimal("NaN"), 2 ** 70, -(2 ** 70),
            datetime.date(2020, 1, 2), _BadStr(), object, 1 + 2j]
    for name in ("int_to_boolean", "to_str", "to_float"):
        for v in vals:
            D.fn("processors", name, repr(v), getattr(C, name), getattr(P, name), v)
    dvals = DT_STRINGS + [None, 5, 1.5, b"2020-01-02", datetime.date(2020, 1, 2), ["2020-01-02"]]
    for _ in range(scale * 40):
        y, mo, d = rng.randint(0, 10000), rng.randint(0, 13), rng.randint(0, 32)
        h, mi, s, us = rng.randint(0, 24), rng.randint(0, 60), rng.randint(0, 60), rng.randint(0, 999999)
        sep = rng.choice([" ", "T", "t", "_"])
        dvals.append(f"{y:04d}-{mo:02d}-{d:02d}")
        dvals.append(f"{h:02d}:{mi:02d}:{s:02d}" + rng.choice(["", f".{us:06d}", f".{us % 1000:03d}", "+02:00"]))
        dvals.append(f"{y:04d}-{mo:02d}-{d:02d}{sep}{h:02d}:{mi:02d}:{s:02d}" + rng.choice(["", f".{us:06d}", "Z", "-07:00"]))
    for name in ("str_to_date", "str_to_time", "str_to_datetime"):
        for v in dvals:
            D.fn("processors", name, repr(v), getattr(C, name), getattr(P, name), v)
    dec_vals = [None, 0, 1, -1, 1.005, 2.675, 1e20, 1e-20, -0.0, float("nan"), float("inf"), 10 ** 30, "1.5", "x", b"1",
                decimal.Decimal("1.23456789"), decimal.Decimal("Infinity"), True, [], 1.5 + 0j]
    for type_ in (decimal.Decimal, float, str):
        for scale_ in (0, 1, 2, 4, 10, 28, 60, -1):
            fc = call(C.to_decimal_processor_factory, type_, scale_)
            fp = call(P.to_decimal_processor_factory, type_, scale_)
            if fc[0] != fp[0]:
                D.pair("processors", "to_decimal_processor_factory.__init__", [type_.__name__, scale_], fc, fp)
                continue
            if fc[0] == "exc":
                continue
            pc, pp = C.to_decimal_processor_factory(type_, scale_), P.to_decimal_processor_factory(type_, scale_)
            for v in dec_vals + [rng.uniform(-1e6, 1e6) for _ in range(3 * scale)]:
                D.fn("processors", "to_decimal_processor", [type_.__name__, scale_, repr(v)], pc, pp, v)


def drv_engine_util(ctx, D, ps, rng, scale):
    import collections
    import types

    from sqlalchemy.util import immutabledict

    C = ps.compiled["sqlalchemy.engine._util_cy"]
    P = ps.pure["sqlalchemy.engine._util_cy"]
    atoms = [None, 1, "s", b"b", 1.5, (), (1,), (1, 2), [], [1], {}, {"a": 1}, immutabledict(), immutabledict({"a": 1}),
             collections.UserDict({"a": 1}), collections.OrderedDict(a=1), types.MappingProxyType({"a": 1}),
             collections.ChainMap({"a": 1}), set(), {1}, frozenset({1}), range(2), object()]
    shapes = list(atoms)
    for a in atoms:
        shapes.append([a])
        shapes.append((a,))
        shapes.append([a, a])
        shapes.append([a, 1])
        shapes.append([{"a": 1}, a])
        shapes.append([[a]])
    for sh in shapes:
        D.fn("engine_util", "_distill_params_20", repr(sh), C._distill_params_20, P._distill_params_20, sh)
        D.fn("engine_util", "_distill_raw_params", repr(sh), C._distill_raw_params, P._distill_raw_params, sh)
    # identity of the returned container (both return the argument itself for lists)
    for sh in ([{"a": 1}], ({"a": 1},), [(1,)], [{"a": 1}, {"a": 2}]):
        D.pair("engine_util", "distill-identity", repr(sh),
               call(lambda: C._distill_params_20(sh) is sh), call(lambda: P._distill_params_20(sh) is sh))
        if isinstance(sh, list):
            D.pair("engine_util", "distill-raw-identity", repr(sh),
                   call(lambda: C._distill_raw_params(sh) is sh), call(lambda: P._distill_raw_params(sh) is sh))
    targets = [(10, 11, 12, 13, 14), [10, 11, 12, 13, 14], "abcde", (1,), ()]
    from sqlalchemy.engine.result import SimpleResultMetaData
    from sqlalchemy.engine.row import Row

    targets.append(Row(SimpleResultMetaData(list("abcde")), None, {}, (1, 2, 3, 4, 5)))
    idxs = [(), (0,), (1,), (4,), (5,), (-1,), (0, 1), (1, 2, 3), (0, 2), (2, 0), (3, 2, 1), (0, 0), (1, 1, 2), (0, 1, 3),
            (-2, -1), (-1, 0), (0, 4), (0, 1, 2, 3, 4), (4, 5), (0, 9), (True, 2), (2, 3, 5)]
    for _ in range(scale * 10):
        idxs.append(tuple(rng.randint(-2, 6) for _ in range(rng.randint(1, 4))))
    for ix in idxs:
        gc, gp = call(C.tuplegetter, *ix), call(P.tuplegetter, *ix)
        if not D.pair("engine_util", "tuplegetter", list(ix), gc, gp) or gc[0] == "exc":
            continue
        fc, fp = C.tuplegetter(*ix), P.tuplegetter(*ix)
        for t in targets:
            D.fn("engine_util", "tuplegetter-apply", [list(ix), repr(t)], fc, fp, t)


def drv_sql_util(ctx, D, ps, rng, scale):
    C = ps.compiled["sqlalchemy.sql._util_cy"]
    P = ps.pure["sqlalchemy.sql._util_cy"]
    names = ["a", "b", "param", "x y", "", "é", "a_1", "%(1)s"]
    for _ in range(scale * 30):
        mc, mp = C.prefix_anon_map(), P.prefix_anon_map()
        keys = []
        for _ in range(rng.randint(1, 12)):
            r = rng.random()
            if r < 0.75:
                keys.append(f"{rng.randint(1, 5)} {rng.choice(names)}")
            elif r < 0.85:
                keys.append(rng.choice(["nospace", "", " ", "1  double", " lead"]))
            else:
                keys.append(rng.choice(names))
        trace = []
        for k in keys:
            how = rng.choice(["getitem", "getitem", "get", "in", "missing"])
            trace.append([how, k])
            if how == "getitem":
                rc, rp = call(lambda: mc[k]), call(lambda: mp[k])
            elif how == "get":
                rc, rp = call(mc.get, k), call(mp.get, k)
            elif how == "in":
                rc, rp = call(lambda: k in mc), call(lambda: k in mp)
            else:
                rc, rp = call(mc.__missing__, k), call(mp.__missing__, k)
            if not D.pair("sql_util", "prefix_anon_map." + how, list(trace), rc, rp):
                break
        D.pair("sql_util", "prefix_anon_map.state", list(trace), ("ret", nz(dict(mc))), ("ret", nz(dict(mp))))
    objs = [object() for _ in range(6)] + ["s", 5, (1,), None]
    for _ in range(scale * 30):
        mc, mp = C.anon_map(), P.anon_map()
        trace = []
        for _ in range(rng.randint(1, 14)):
            how = rng.choice(["getitem", "get_anon", "get_anon", "in", "get", "missing", "len", "setitem"])
            if how == "get_anon":
                i = rng.randrange(len(objs))
                trace.append([how, i])
                rc, rp = call(mc.get_anon, objs[i]), call(mp.get_anon, objs[i])
            else:
                k = rng.choice(["a", "b", 1, 2, (1, 2), "k%d" % rng.randint(0, 3)])
                trace.append([how, repr(k)])
                if how == "getitem":
                    rc, rp = call(lambda: mc[k]), call(lambda: mp[k])
                elif how == "in":
                    rc, rp = call(lambda: k in mc), call(lambda: k in mp)
                elif how == "get":
                    rc, rp = call(mc.get, k, "dflt"), call(mp.get, k, "dflt")
                elif how == "missing":
                    rc, rp = call(mc.__missing__, k), call(mp.__missing__, k)
                elif how == "len":
                    rc, rp = call(len, mc), call(len, mp)
                else:
                    rc, rp = call(mc.__setitem__, k, True), call(mp.__setitem__, k, True)
            if not D.pair("sql_util", "anon_map." + how, list(trace), rc, rp):
                break
        # ids of the probe objects are the same in both maps (same objects): compare values only by position
        D.pair("sql_util", "anon_map.state", list(trace), ("ret", nz(sorted(map(repr, mc.values())))),
               ("ret", nz(sorted(map(repr, mp.values())))))


def drv_row(ctx, D, ps, rng, scale):
    fams = [(ps.result_c, ps.row_c), (ps.result_p, ps.row_p)]

    def upper(v):
        return v.upper()

    def boom(v):
        raise KeyError("processor failed")

    for _ in range(scale * 40):
        n = rng.randint(0, 5)
        keys = rng.sample(["a", "b", "c", "count", "index", "_x", "keys", "é", "t"], n)
        data = [rng.choice([None, 1, "x", 1.5, (1,), [1], True]) for _ in range(n)]
        procs = None
        if rng.random() < 0.5:
            procs = [rng.choice([None, None, str, upper, boom]) for _ in range(n)]
            if rng.random() < 0.15:
                procs = procs + [None]  # wrong length -> AssertionError in both
        container = rng.choice([tuple, list])
        rows = []
        for res_mod, row_mod in fams:
            md = res_mod.SimpleResultMetaData(keys)
            rows.append((call(row_mod.Row, md, procs, md._key_to_index, container(data)), md, row_mod))
        desc = {"keys": keys, "data": [repr(x) for x in data], "procs": None if procs is None else [getattr(p, "__name__", None) for p in procs]}
        if not D.pair("row", "construct", desc, rows[0][0][:2], rows[1][0][:2]):
            continue
        if rows[0][0][0] == "exc":
            continue
        rc = fams[0][1].Row(rows[0][1], procs, rows[0][1]._key_to_index, container(data))
        rp = fams[1][1].Row(rows[1][1], procs, rows[1][1]._key_to_index, container(data))
        probes = []
        for i in list(range(-n - 1, n + 1)) + [slice(0, 2), slice(None, None, -1), slice(1, None), "a", None, 1.5]:
            probes.append(("getitem", i, lambda r, i=i: r[i]))
        for k in keys + ["zz", "_data", "_mapping", "_fields", "__class__", "count", "index", ""]:
            probes.append(("getattr", k, lambda r, k=k: getattr(r, k) if k not in ("_mapping", "__class__", "count", "index") else type(getattr(r, k)).__name__))
            probes.append(("mapping", k, lambda r, k=k: r._mapping[k]))
            probes.append(("mapping-in", k, lambda r, k=k: k in r._mapping))
        probes += [
            ("len", None, len), ("iter", None, list), ("tuple", None, tuple), ("hash", None, lambda r: hash(r) == hash(tuple(r))),
            ("repr", None, repr), ("contains", None, lambda r: (1 in r, "x" in r, None in r, "zz" in r)),
            ("eq-tuple", None, lambda r: (r == tuple(r), r != tuple(r), r == list(r), r == 5)),
            ("lt-tuple", None, lambda r: (r < tuple(r), r <= tuple(r), r > (0,), r >= ())),
            ("asdict", None, lambda r: r._asdict()), ("fields", None, lambda r: r._fields), ("t", None, lambda r: r._tuple()),
            ("values_impl", None, lambda r: r._values_impl()), ("to_tuple", None, lambda r: r._to_tuple_instance()),
            ("setattr", None, lambda r: setattr(r, "a", 1)), ("setattr2", None, lambda r: setattr(r, "_data", ())),
            ("delattr", None, lambda r: delattr(r, "a")), ("setitem", None, lambda r: r.__setitem__(0, 1)),
            ("pickle2", None, lambda r: tuple(pickle.loads(pickle.dumps(r, 2)))),
            ("pickle5", None, lambda r: (lambda q: (tuple(q), q._fields, q == r))(pickle.loads(pickle.dumps(r, 5)))),
            ("getstate", None, lambda r: sorted(r.__getstate__())),
            ("keys-view", None, lambda r: (list(r._mapping.keys()), list(r._mapping.values()), list(r._mapping.items()))),
            ("count-index", None, lambda r: (r.count(1), r.index(1))),
        ]
        for what, arg, f in probes:
            with warnings.catch_warnings():
                warnings.simplefilter("ignore")
                oc, op_ = call(f, rc), call(f, rp)
            D.pair("row", what, {"row": desc, "arg": repr(arg)}, oc[:2], op_[:2])
        # RowMapping (a Python subclass of BaseRow, from Row._mapping): attribute-, key- and
        # mapping-protocol access must not depend on the flavour of the base class
        import operator as _op

        mc, mp = rc._mapping, rp._mapping
        mprobes = []
        for k in keys + ["zz", "_data", "items", "get", "", "__len__"]:
            mprobes.append(("getattr", k, lambda m, k=k: (lambda v: v if not callable(v) else "<callable>")(getattr(m, k))))
            mprobes.append(("getattr-default", k, lambda m, k=k: (lambda v: v if not callable(v) else "<callable>")(getattr(m, k, "DFLT"))))
            mprobes.append(("hasattr", k, lambda m, k=k: hasattr(m, k)))
            if k:
                mprobes.append(("attrgetter", k, lambda m, k=k: (lambda v: v if not callable(v) else "<callable>")(_op.attrgetter(k)(m))))
            mprobes.append(("getitem", k, lambda m, k=k: m[k]))
            mprobes.append(("contains", k, lambda m, k=k: k in m))
            mprobes.append(("get", k, lambda m, k=k: m.get(k, "DFLT")))
            mprobes.append(("setattr", k, lambda m, k=k: setattr(m, k, 1)))
        mprobes += [("len", None, len), ("iter", None, list), ("dict", None, dict), ("keys", None, lambda m: list(m.keys())),
                    ("values", None, lambda m: list(m.values())), ("items", None, lambda m: list(m.items())),
                    ("eq-dict", None, lambda m: m == dict(m)), ("type", None, lambda m: type(m).__name__),
                    ("getitem-int", None, lambda m: m[0]), ("hash", None, lambda m: isinstance(hash(m), int)),
                    ("pickle", None, lambda m: dict(pickle.loads(pickle.dumps(m, 5)))), ("repr", None, repr)]
        for what, arg, f in mprobes:
            with warnings.catch_warnings():
                warnings.simplefilter("ignore")
                oc, op_ = call(f, mc), call(f, mp)
            D.pair("rowmapping", what, {"row": desc, "arg": repr(arg)}, oc[:2], op_[:2])


def drv_result(ctx, D, ps, rng, scale):
    from vf.gen import resultops_gf as G

    fc = G.Family("so", ps.result_c, ps.row_c)
    fp = G.Family("py", ps.result_p, ps.row_p)
    for k in range(scale * 60):
        spec = G.gen_spec(rng, rng.choice([3, 7, 12]), cursor=False)
        model = G.spec_model(spec)
        rc, rp = G.RealSeq(fc, spec), G.RealSeq(fp, spec)
        done = []
        for hname, op in G.random_sequence(rng, model, spec, rng.randint(2, 12), 7):
            oc, op_ = rc.do(hname, op), rp.do(hname, op)
            model.apply(hname, op, oc)
            done.append([hname, op])
            if not D.pair("result", op[0], {"spec": spec, "calls": done}, oc, op_, nontrivial=len(done) > 1):
                break
        rc.finish()
        rp.finish()
    # directed: unique() + batch fetching over row sets with duplicates (the many-row getter
    # loops until enough unique rows are collected)
    dup_sets = [[[1, "x"], [1, "x"], [2, "y"], [2, "y"], [1, "z"], [3, "x"]],
                [[1, "x"], [2, "y"], [1, "x"], [2, "y"], [3, "z"], [3, "z"], [4, "w"]],
                [[0, 0]] * 5 + [[1, 1]], [[1, "x"], [1, "x"], [2, "y"], [3, "z"], [4, "w"]], []]
    scripts = [
        [("r", ["unique", None]), ("r", ["fetchmany", 2]), ("r", ["fetchmany", 2]), ("r", ["all"])],
        [("r", ["unique", None]), ("r", ["partitions", 2, 9])],
        [("r", ["unique", "first"]), ("r", ["fetchmany", 3]), ("r", ["fetchone"]), ("r", ["all"])],
        [("r", ["scalars", 0, "s"]), ("s", ["unique", None]), ("s", ["fetchmany", 2]), ("s", ["fetchmany", 1]), ("s", ["all"])],
        [("r", ["yield_per", 2]), ("r", ["unique", None]), ("r", ["fetchmany", None]), ("r", ["partitions", None, 9])],
        [("r", ["unique", None]), ("r", ["mappings", "m"]), ("m", ["fetchmany", 2]), ("m", ["one"])],
        [("r", ["columns", [1]]), ("r", ["unique", None]), ("r", ["fetchmany", 2]), ("r", ["first"])],
    ]
    for rows in dup_sets:
        for kind in ("iter", "chunked"):
            for dyn in ((False, True) if kind == "chunked" else (False,)):
                for script in scripts:
                    spec = {"kind": kind, "keys": ["a", "b"], "rows": rows, "dynamic": dyn}
                    model = G.spec_model(spec)
                    rc, rp = G.RealSeq(fc, spec), G.RealSeq(fp, spec)
                    done = []
                    for hname, op in script:
                        if not model.allowed(hname, op):
                            break
                        oc, op_ = rc.do(hname, op), rp.do(hname, op)
                        model.apply(hname, op, oc)
                        done.append([hname, op])
                        if not D.pair("result", op[0], {"spec": spec, "calls": done}, oc, op_, nontrivial=True):
                            break
                    rc.finish()
                    rp.finish()


DRIVERS = [drv_collections, drv_immutabledict, drv_processors, drv_engine_util, drv_sql_util, drv_row, drv_result]


def run_drivers(ctx, ps, scale, tag=""):
    D = Diff(ctx, tag)
    for drv in DRIVERS:
        if not ctx.budget_ok():
            break
        drv(ctx, D, ps, ctx.rng, scale)


# --------------------------------------------------------------- whole-library differential
def wholelib(ctx, n):
    from vf.gen.wholelib_gf import transcript

    seed = ctx.seed * 1000 + ctx.shard
    from vf.gen.subclassdiff_gf import transcript as sub_transcript

    with warnings.catch_warnings():
        warnings.simplefilter("ignore")
        here = transcript(seed, n) + sub_transcript(seed)
    env = dict(os.environ)
    env["PYTHONPATH"] = os.path.dirname(os.path.dirname(os.path.dirname(os.path.abspath(__file__)))) + os.pathsep + env.get("PYTHONPATH", "")
    out = os.path.join(ctx.workdir, "wholelib.json")
    p = subprocess.run([sys.executable, "-m", "vf.props.c55", "wholelib", str(seed), str(n), out], env=env,
                       capture_output=True, text=True, timeout=600)
    if p.returncode != 0 or not os.path.exists(out):
        raise RuntimeError("purepy transcript subprocess failed: " + p.stderr[-2000:])
    with open(out) as f:
        there = json.load(f)
    ctx.count("wholelib_runs")
    if there["has_cyextension"]:
        raise RuntimeError("purepy subprocess imported the compiled extensions")
    other = there["lines"]
    reported = set()
    for i in range(max(len(here), len(other))):
        a = here[i] if i < len(here) else "<missing>"
        b = other[i] if i < len(other) else "<missing>"
        ctx.count("wholelib_lines_compared")
        sub = a.startswith("SUB:") and b.startswith("SUB:")
        if sub:
            ctx.count("subclass_ops_compared")
        if a != b:
            if sub and a.split(" ", 1)[0] == b.split(" ", 1)[0]:
                # SUB:<Class>.<operation> lines are independent of each other: one mechanism per
                # (class, operation), keep going
                kind = a.split(" ", 1)[0][4:]
                mech = f"subclass-{kind}-differs-between-builds"
                if mech not in reported and len(reported) < 25:
                    reported.add(mech)
                    ctx.violation(mech, f"{a[:400]!r} (compiled) vs {b[:400]!r} (pure python)",
                                  {"seed": seed, "line": i, "compiled": a[:3000], "pure": b[:3000]})
                continue
            kind = a.split(" ", 1)[0].lower() if a != "<missing>" else "length"
            ctx.violation(f"wholelib-transcript-{kind}-differs",
                          f"line {i}: compiled {a[:300]!r} vs pure python {b[:300]!r}",
                          {"seed": seed, "n": n, "line": i, "compiled": a[:2000], "pure": b[:2000]})
            break
    ctx.case({"wholelib": seed, "n": n}, nontrivial=True)


# ------------------------------------------------------------------------- sanitizer build
def asan_job(ctx):
    import shutil
    import sysconfig

    from vf import modes

    lib = modes.repo_lib()
    scratch = os.path.join(ctx.workdir, "asan")
    dst = os.path.join(scratch, "repo", "lib")
    shutil.copytree(lib, dst, ignore=shutil.ignore_patterns("*.so", "__pycache__", "*.pyc"))
    inc = sysconfig.get_paths()["include"]
    suffix = sysconfig.get_config_var("EXT_SUFFIX")
    procs = []
    for name in modes.CY_MODULES:
        rel = name.replace(".", os.sep)
        src = os.path.join(lib, rel + ".c")
        if not os.path.exists(src):
            ctx.count("asan_c_sources_missing")
            shutil.rmtree(scratch, ignore_errors=True)
            return
        outp = os.path.join(dst, rel + suffix)
        cmd = ["clang", "-O1", "-g", "-fsanitize=address,undefined", "-shared", "-fPIC", "-I", inc, src, "-o", outp]
        procs.append((name, subprocess.Popen(cmd, stdout=subprocess.PIPE, stderr=subprocess.STDOUT, text=True)))
    for name, p in procs:
        out, _ = p.communicate(timeout=900)
        if p.returncode != 0:
            shutil.rmtree(scratch, ignore_errors=True)
            raise RuntimeError(f"sanitizer build of {name} failed: {out[-1500:]}")
        ctx.count("asan_modules_built")
    logbase = os.path.join(scratch, "san.log")
    res = os.path.join(scratch, "drivers.json")
    env = dict(os.environ)
    env["VERIF_REPO"] = os.path.join(scratch, "repo")
    env["LD_PRELOAD"] = ASAN_RT
    env["ASAN_OPTIONS"] = f"detect_leaks=0:halt_on_error=0:log_path={logbase}"
    env["UBSAN_OPTIONS"] = f"print_stacktrace=1:halt_on_error=0:log_path={logbase}"
    env["PYTHONMALLOC"] = "malloc"
    env["PYTHONPATH"] = os.path.dirname(os.path.dirname(os.path.dirname(os.path.abspath(__file__)))) + os.pathsep + env.get("PYTHONPATH", "")
    p = subprocess.run([sys.executable, "-m", "vf.props.c55", "asan-drivers", str(ctx.seed), res], env=env,
                       capture_output=True, text=True, timeout=3000)
    try:
        if not os.path.exists(res):
            raise RuntimeError(f"sanitizer driver subprocess failed rc={p.returncode}: {p.stderr[-2500:]}")
        with open(res) as f:
            r = json.load(f)
        if not all(r["compiled"].values()) or not r["so_from_scratch"]:
            raise RuntimeError(f"sanitizer run did not load the instrumented modules: {r['compiled']} {r['so_files']}")
        ctx.count("asan_driver_comparisons", r["comparisons"])
        for mech, lst in r["violations"].items():
            for w in lst:
                ctx.violation(mech, "[sanitizer build] " + w["summary"], w["witness"])
        text = p.stderr
        for fn in os.listdir(scratch):
            if fn.startswith("san.log"):
                with open(os.path.join(scratch, fn), errors="replace") as f:
                    text += "\n" + f.read()
        blocks = [ln for ln in text.splitlines()
                  if "ERROR: AddressSanitizer" in ln or "runtime error:" in ln or "ERROR: UndefinedBehaviorSanitizer" in ln]
        ctx.count("asan_log_scanned")
        ctx.extra["sanitizer_report_blocks"] = len(blocks)
        ctx.seen("sanitizer_report_blocks", len(blocks))
        ctx.seen("sanitizer_log_bytes", len(text))
        for ln in blocks[:5]:
            kind = "asan" if "AddressSanitizer" in ln else "ubsan"
            where = ""
            for m in modes.CY_MODULES:
                if m.rsplit(".", 1)[1] in ln:
                    where = "-" + m.rsplit(".", 1)[1]
            ctx.violation(f"sanitizer-report-{kind}{where}", ln.strip()[:400], {"line": ln.strip()[:1000], "blocks": len(blocks)})
    finally:
        shutil.rmtree(scratch, ignore_errors=True)
    ctx.count("asan_build_deleted", 0 if os.path.exists(scratch) else 1)


def run(ctx):
    from vf import modes
    from vf.mon import purefamily_gf as PF

    info = modes.verify_active()
    ncomp = sum(1 for v in info["compiled"].values() if v)
    ctx.seen("compiled_flags", json.dumps(info["compiled"], sort_keys=True))
    if ncomp < len(modes.CY_MODULES):
        # .so files absent / not importable: nothing to compare -> required counters stay 0
        ctx.count("so_missing", len(modes.CY_MODULES) - ncomp)
        return
    ps = PF.load()
    ctx.count("compiled_modules", sum(1 for c, p in ps.flavours.values() if c))
    ctx.count("pure_modules", sum(1 for c, p in ps.flavours.values() if not p))
    assert all(c and not p for c, p in ps.flavours.values()), ps.flavours
    scale = ctx.pick({"quick": 1, "thorough": 12})
    run_drivers(ctx, ps, scale)
    if ctx.shard < ctx.pick({"quick": 2, "thorough": 6}):
        wholelib(ctx, ctx.pick({"quick": 40, "thorough": 150}))
    if ctx.thorough and ctx.shard == 0:
        asan_job(ctx)
        ctx.count("asan_jobs")


# ----------------------------------------------------------------- subprocess entry points
def _main(argv):
    role = argv[0]
    from vf import modes

    if role == "wholelib":
        modes.activate("purepy")
        warnings.simplefilter("ignore")
        from vf.gen.subclassdiff_gf import transcript as sub_transcript
        from vf.gen.wholelib_gf import transcript

        lines = transcript(int(argv[1]), int(argv[2])) + sub_transcript(int(argv[1]))
        info = modes.verify_active()
        with open(argv[3], "w") as f:
            json.dump({"lines": lines, "has_cyextension": info["has_cyextension"]}, f)
        return 0
    if role == "asan-drivers":
        modes.activate("cext")
        from vf.core import Ctx
        from vf.mon import purefamily_gf as PF

        ctx = Ctx("C55", "quick", int(argv[1]), 0, 1, "cext", os.path.dirname(argv[2]), 2500)
        ps = PF.load()
        run_drivers(ctx, ps, 3)
        files = {n: getattr(m, "__file__", "") for n, m in ps.compiled.items()}
        with open(argv[2], "w") as f:
            json.dump({"compiled": {n: bool(m._is_compiled()) for n, m in ps.compiled.items()},
                       "so_files": files,
                       "so_from_scratch": all(fn.startswith(modes.repo_lib()) and fn.endswith(".so") for fn in files.values()),
                       "comparisons": sum(v for k, v in ctx.counters.items() if k.startswith("cmp_")),
                       "violations": ctx.violations}, f, default=repr)
        return 0
    raise SystemExit("unknown role " + role)


if __name__ == "__main__":
    sys.exit(_main(sys.argv[1:]))
