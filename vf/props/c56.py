"""C56 -- upsert statements insert or update exactly as their conflict clause says.

Executed on real SQLite (spy engine, file database, independent raw read-back):

  table    ``id`` autoincrement PK, four independent uniqueness rules - UNIQUE(k),
           UNIQUE(a, b), a *partial* unique index on (e) WHERE flag = 1, an *expression*
           unique index on lower(s) - payload ``v``, counter ``n`` (python default 0),
           ``w`` (server default), ``ou`` (python onupdate, documented NOT to run for ON
           CONFLICT); half of the schemas add an ``insert_sentinel()`` column so that
           sort_by_parameter_order + upsert meets a usable sentinel.
  clauses  on_conflict_do_nothing / on_conflict_do_update with the target given as Column
           objects, string names, composite, partial (index_where), expression, or
           omitted; 1-2 clauses per statement (2.1 multi-clause); set_ keyed by name or
           Column with literals, ``excluded.x``, ``t.x + 1``, ``t.v || '|' || excluded.v``,
           ``t.n + excluded.n`` and per-row ``bindparam()`` values; optional ``where=`` built
           from literals, ``excluded`` or per-row ``bindparam()``s (alone or mixed with bound
           SET values): each parameter set is updated / skipped by ITS OWN values.
  families every statement is, with probability 1/2, a same-shaped *sibling* of the previous one
           on the same table and engine (shared compiled cache): identical form, targets and
           actions, differing in exactly one WHERE literal, WHERE expression, SET literal or SET
           expression of one DO UPDATE clause.
  x column a column whose type has a SQL-level ``bind_expression`` (every bound value is wrapped
           ``x[..]``), assignable in SET from a literal, ``excluded.x`` or a per-row bindparam.
  rows     existing rows + parameter sets that are fresh, conflict with an existing row on
           exactly one uniqueness rule, or conflict with an *earlier row of the same
           statement* (mutual conflicts); occasionally a conflict no clause covers
           (IntegrityError expected, table unchanged).
  forms    single (params / .values()), executemany without RETURNING, executemany with
           RETURNING sorted / unsorted under page sizes 1,2,3,1000 (the spy permutes every
           multi-row RETURNING batch), multi-VALUES in one statement, ORM bulk upsert
           ``session.scalars(insert(Cls)...returning(Cls), rows, populate_existing)``.

Oracle: a ~50 line insert-or-update model processed row by row (unique lookup -> first
clause whose target covers the violated rule -> skip / update-if-where / insert); table
state == model state after every statement; RETURNING rows == snapshots of the affected
rows (multiset; sequence when sort_by_parameter_order was requested); ORM objects ==
stored rows.  Generated rows never violate two rules at once and SET never writes a
unique column, so the model does not depend on SQLite's constraint-check order.

Part C (recording fake DBAPI): MySQL / MariaDB ``on_duplicate_key_update`` in its three argument
forms (dict, kwargs, ordered list of 2-tuples keyed by name or Column) x requested orders that
differ from the table's column order x assignments that read columns other assignments write,
VALUES() and MySQL 8 ``AS new`` forms: the statement handed to the driver is parsed back, assignment
set / order (ordered form) are judged and MySQL's left-to-right evaluation of the rendered
assignments on an existing row must equal the model.

Part B (recording fake DBAPI, compile level only): PostgreSQL ``on_conflict_do_update``
and MySQL/MariaDB ``on_duplicate_key_update`` with unique literal values: each SET value
must be bound to the placeholder that follows its own ``col =`` in the conflict clause,
``excluded.x`` / ``VALUES(x)`` / ``new.x`` references must name inserted columns, and the
VALUES parameters must keep their order.  Their execution semantics are out of reach.
"""
from __future__ import annotations

import re

META = {
    "id": "C56",
    "level": "exploration",
    "technique": "row-by-row insert-or-update reference model vs real SQLite state and RETURNING; permuted RETURNING batches",
    "level_text": "Seeded exploration of conflict targets x actions x SET expressions x WHERE x conflict patterns (fresh / existing / mutual / uncovered) x delivery forms on real SQLite; full table state and RETURNING rows are compared with a small reference model after every statement.",
    "level_note": "Only SQLite executes. PostgreSQL / MySQL / MariaDB upserts are judged on the recorded statement text and parameters (placeholder-to-value correspondence), not on behaviour. Rows conflicting with two uniqueness rules at once and SET clauses that write unique columns are not generated (model would depend on SQLite internals).",
    "design_ref": "DESIGN.md section 4, C56",
    "rule": "case = (clauses, set/where menu choices, conflict pattern per row, form, page, sort); non-trivial = at least one row took a conflict path",
    "shards": {"quick": 8, "thorough": 16},
    "soft_s": {"quick": 50, "thorough": 800},
    "exhaustive": {"quick": False, "thorough": False},
    "require": ["rows_conflicted", "rows_updated", "rows_skipped", "rows_inserted", "returning_rows_checked",
                "mutual_conflicts", "batches_permuted", "fake_set_values_checked", "orm_objects_checked",
                "uncovered_conflicts_raised", "bound_set_rows", "bound_where_rows", "family_siblings",
                "mysql_ondup_rows_modelled", "mysql_ondup_self_referencing_ordered"],
    "assumptions": ["reference model of SQLite UPSERT semantics for single-rule conflicts (calibrated: silent on the unchanged tree)"],
}

COLS = ("id", "k", "a", "b", "e", "flag", "s", "v", "n", "w", "ou", "x")
RULES = ("k", "ab", "e", "ls")


def rule_key(rule, r):
    if rule == "k":
        return ("k", r["k"])
    if rule == "ab":
        return None if r["a"] is None or r["b"] is None else ("ab", r["a"], r["b"])
    if rule == "e":
        return ("e", r["e"]) if r["flag"] == 1 and r["e"] is not None else None
    if rule == "ls":
        return None if r["s"] is None else ("ls", r["s"].lower())
    raise AssertionError(rule)


class Model:
    def __init__(self):
        self.rows = {}   # id -> dict

    def next_id(self):
        return max(self.rows, default=0) + 1

    def conflicts(self, prop):
        out = []
        for rule in RULES:
            kk = rule_key(rule, prop)
            if kk is None:
                continue
            for r in self.rows.values():
                if rule_key(rule, r) == kk:
                    out.append((rule, r))
        return out

    def upsert(self, prop, clauses):
        """returns ('ins'|'upd'|'skip'|'error', row snapshot or None)"""
        cf = self.conflicts(prop)
        if not cf:
            row = dict(prop)
            row["id"] = self.next_id()
            self.rows[row["id"]] = row
            return "ins", dict(row)
        assert len(cf) == 1, cf
        rule, ex = cf[0]
        for cl in clauses:
            if cl["rule"] is None or cl["rule"] == rule:
                if cl["action"] == "nothing":
                    return "skip", None
                if cl["where_py"] is not None and not cl["where_py"](ex, prop):
                    return "skip", None
                new = {col: fn(ex, prop) for col, fn in cl["set_py"].items()}
                ex.update(new)
                return "upd", dict(ex)
        return "error", None


# ---------------------------------------------------------------- menus (SQL expr, python twin)
SET_OPTIONS = {
    # name -> (builder(sa, t, ex, L), python twin(e, p, L), literal kind or None)
    "v": {
        "lit": (lambda sa, t, ex, L: L, lambda e, p, L: L, "str"),
        "exc": (lambda sa, t, ex, L: ex.v, lambda e, p, L: p["v"], None),
        "cat": (lambda sa, t, ex, L: t.c.v + L + ex.v, lambda e, p, L: e["v"] + L + p["v"], "sep"),
        "bind": (lambda sa, t, ex, L: sa.bindparam("bp_v"), lambda e, p, L: p["bp_v"], None),
        # a SQL function over several bound literals: "fn(?, ?, ...)" inside the SET clause
        "coalesce": (lambda sa, t, ex, L: sa.func.coalesce(*L), lambda e, p, L: L[0], "strs"),
    },
    "n": {
        "inc": (lambda sa, t, ex, L: t.c.n + L, lambda e, p, L: e["n"] + L, "int"),
        "sum": (lambda sa, t, ex, L: t.c.n + ex.n, lambda e, p, L: e["n"] + p["n"], None),
        "exc": (lambda sa, t, ex, L: ex.n, lambda e, p, L: p["n"], None),
        "lit": (lambda sa, t, ex, L: L, lambda e, p, L: L, "int"),
        "bind": (lambda sa, t, ex, L: sa.bindparam("bp_n"), lambda e, p, L: p["bp_n"], None),
    },
    "w": {
        "exc": (lambda sa, t, ex, L: ex.w, lambda e, p, L: p["w"], None),
        "lit": (lambda sa, t, ex, L: L, lambda e, p, L: L, "str"),
        "tbl": (lambda sa, t, ex, L: t.c.v, lambda e, p, L: e["v"], None),
    },
    # x: the column type wraps every *bound* value in x[..] (bind_expression); column
    # references (excluded.x) are not wrapped again
    "x": {
        "lit": (lambda sa, t, ex, L: L, lambda e, p, L: f"x[{L}]", "str"),
        "exc": (lambda sa, t, ex, L: ex.x, lambda e, p, L: p["x"], None),
        "bind": (lambda sa, t, ex, L: sa.bindparam("bp_x"), lambda e, p, L: f"x[{p['bp_x']}]", None),
    },
}
WHERE_OPTIONS = {
    "none": (None, None, None),
    "n_lt": (lambda sa, t, ex, K: t.c.n < K, lambda e, p, K: e["n"] < K, "int"),
    "exc_n_gt": (lambda sa, t, ex, K: ex.n + K > t.c.n, lambda e, p, K: p["n"] + K > e["n"], "int"),
    "w_is": (lambda sa, t, ex, K: t.c.w == K, lambda e, p, K: e["w"] == K, "w"),
    "w_isnt": (lambda sa, t, ex, K: t.c.w != K, lambda e, p, K: e["w"] != K, "w"),
    "and": (lambda sa, t, ex, K: sa.and_(t.c.n < K, ex.v != t.c.v), lambda e, p, K: e["n"] < K and p["v"] != e["v"], "int"),
    # per-row bound parameters inside the DO UPDATE WHERE: every parameter set decides for itself
    "n_lt_bind": (lambda sa, t, ex, K: t.c.n < sa.bindparam("bp_wn"), lambda e, p, K: e["n"] < p["bp_wn"], None),
    "w_is_bind": (lambda sa, t, ex, K: t.c.w == sa.bindparam("bp_ww"), lambda e, p, K: e["w"] == p["bp_ww"], None),
    "and_bind": (lambda sa, t, ex, K: sa.and_(ex.n + sa.bindparam("bp_wn") > t.c.n, t.c.w != sa.bindparam("bp_ww")),
                 lambda e, p, K: p["n"] + p["bp_wn"] > e["n"] and e["w"] != p["bp_ww"], None),
}
WHERE_BINDS = {"n_lt_bind": ["bp_wn"], "w_is_bind": ["bp_ww"], "and_bind": ["bp_wn", "bp_ww"]}


def draw_literal(rng, kind, not_equal=None):
    v = None
    for _ in range(20):
        if kind == "str":
            v = "L" + str(rng.randint(0, 10 ** 6))
        elif kind == "sep":
            v = rng.choice(["|", "+", "::", "~"])
        elif kind == "int":
            v = rng.randint(0, 6)
        elif kind == "w":
            v = rng.choice(["w0", "wx", "WL"])
        elif kind == "strs":
            # arity: anything from 2 up to the width of a VALUES group of this table (8-10 columns),
            # half of the time exactly such a width - a placeholder group shaped like the VALUES group
            arity = rng.choice([8, 9, 10]) if rng.random() < 0.5 else rng.randint(2, 7)
            v = ["L" + str(rng.randint(0, 10 ** 6)) for _ in range(arity)]
        else:
            return None
        if v != not_equal:
            return v
    return v


def set_spec(rng):
    """{'cols': [[col, option, literal]...], 'by_column': bool}"""
    cols = rng.sample(["v", "n", "w", "x"], rng.randint(1, 3))
    out = []
    for c in cols:
        name = rng.choice(sorted(SET_OPTIONS[c]))
        out.append([c, name, draw_literal(rng, SET_OPTIONS[c][name][2])])
    return {"cols": out, "by_column": rng.random() < 0.4}


def where_spec(rng):
    name = rng.choice(["none", "none"] + sorted(k for k in WHERE_OPTIONS if k != "none"))
    return [name, draw_literal(rng, WHERE_OPTIONS[name][2])]


def vary_clause(rng, cl):
    """a same-shaped sibling of a DO UPDATE clause spec: exactly one of the WHERE literal, the
    WHERE expression, a SET literal or a SET expression differs"""
    import copy

    tk = cl["tk"]
    cl = copy.deepcopy({k: v for k, v in cl.items() if k != "tk"})
    cl["tk"] = tk
    how = rng.choice(["where_literal", "where_literal", "where_expr", "set_literal", "set_expr"])
    w = cl["where"]
    lits = [c for c in cl["set"]["cols"] if SET_OPTIONS[c[0]][c[1]][2]]
    if how == "where_literal" and w[0] != "none":
        w[1] = draw_literal(rng, WHERE_OPTIONS[w[0]][2], not_equal=w[1])
    elif how == "set_literal" and lits:
        c = rng.choice(lits)
        c[2] = draw_literal(rng, SET_OPTIONS[c[0]][c[1]][2], not_equal=c[2])
    elif how == "set_expr":
        c = rng.choice(cl["set"]["cols"])
        c[1] = rng.choice(sorted(k for k in SET_OPTIONS[c[0]] if k != c[1]))
        c[2] = draw_literal(rng, SET_OPTIONS[c[0]][c[1]][2])
    else:
        how = "where_expr"
        name = rng.choice(sorted(k for k in WHERE_OPTIONS if k != w[0]))
        cl["where"] = [name, draw_literal(rng, WHERE_OPTIONS[name][2])]
    cl["varied"] = how
    return cl


def target_for(sa, t, rule, rng, many):
    """index_elements / index_where for a uniqueness rule.  The partial-index predicate is spelled
    as text, with literal_column, or with a plain Python literal (rendered as a literal_execute
    parameter)."""
    if rule is None:
        return {}
    if rule == "k":
        return {"index_elements": rng.choice([[t.c.k], ["k"]])}
    if rule == "ab":
        return {"index_elements": rng.choice([[t.c.a, t.c.b], ["a", "b"]])}
    if rule == "e":
        iw = [sa.text("flag = 1"), t.c.flag == sa.literal_column("1"), t.c.flag == 1]
        return {"index_elements": rng.choice([[t.c.e], ["e"]]), "index_where": rng.choice(iw)}
    if rule == "ls":
        return {"index_elements": [sa.func.lower(t.c.s)]}
    raise AssertionError(rule)


def make_xtype(sa):
    from sqlalchemy.types import TypeDecorator

    class XWrap(TypeDecorator):
        impl = sa.String
        cache_ok = True

        def bind_expression(self, bindvalue):
            return sa.func.printf("x[%s]", bindvalue, type_=self)

    return XWrap


def build_table(sa, md, name, with_sentinel, xtype):
    from sqlalchemy import insert_sentinel

    extra = [insert_sentinel("sent")] if with_sentinel else []
    return sa.Table(
        name, md,
        sa.Column("id", sa.Integer, primary_key=True),
        sa.Column("k", sa.Integer, nullable=False, unique=True),
        sa.Column("a", sa.Integer), sa.Column("b", sa.String),
        sa.Column("e", sa.String), sa.Column("flag", sa.Integer),
        sa.Column("s", sa.String),
        sa.Column("v", sa.String), sa.Column("n", sa.Integer, default=0),
        sa.Column("w", sa.String, server_default="w0"),
        sa.Column("ou", sa.String, onupdate="OU"),
        sa.Column("x", xtype()),     # a type with a SQL-level bind_expression: every bound value is wrapped x[..]
        *extra,
        sa.UniqueConstraint("a", "b"),
        sa.Index(f"ix_e_{name}", "e", unique=True, sqlite_where=sa.text("flag = 1")),
        sa.Index(f"ix_ls_{name}", sa.func.lower(sa.column("s")), unique=True),
    )


def read_table(path, name):
    import sqlite3

    con = sqlite3.connect(path, timeout=2.0)
    try:
        rows = con.execute(f"SELECT {', '.join(COLS)} FROM {name}").fetchall()
    finally:
        con.close()
    return {r[0]: dict(zip(COLS, r)) for r in rows}


def run(ctx):
    import warnings

    import sqlalchemy as sa
    from sqlalchemy import orm
    from sqlalchemy.dialects import sqlite as sqlite_dialect

    from vf.mon.dbapi_spy import Spy
    from vf.mon.sqlite_shim_gd import Permuter, spy_engine

    rng = ctx.rng
    warnings.simplefilter("ignore")
    # a first slice of part B runs up front: a loaded machine cannot starve its counter
    fake_part(ctx, sa, first=True)
    mysql_ondup_part(ctx, sa, first=True)
    nschemas = ctx.pick({"quick": 50, "thorough": 1400})
    xtype = make_xtype(sa)
    spy = Spy()
    spy.enabled = False
    perm = Permuter(rng.random())
    spy.row_hook = perm
    styles = ("qmark", "named", "numeric", "numeric_dollar")
    engines, paths = {}, {}
    for ps in styles:
        paths[ps] = ctx.tmppath(f"-{ps}.db")
        engines[ps] = spy_engine(spy, paths[ps], ps)
    try:
        for k in range(nschemas):
            if not ctx.budget_ok():
                break
            ps = styles[k % len(styles)]
            md = sa.MetaData()
            t = build_table(sa, md, f"u{ctx.shard}_{k}", with_sentinel=k % 2 == 1, xtype=xtype)
            md.create_all(engines[ps])
            reg = orm.registry()
            cls = type("U", (object,), {})
            reg.map_imperatively(cls, t)
            try:
                drive(ctx, sa, orm, sqlite_dialect, rng, engines[ps], paths[ps], t, cls, perm, ps, k)
            finally:
                reg.dispose()
                md.drop_all(engines[ps])
    finally:
        spy.row_hook = None
        for e in engines.values():
            e.dispose()
    ctx.count("batches_permuted", perm.permuted)
    fake_part(ctx, sa, first=False)
    mysql_ondup_part(ctx, sa, first=False)


def drive(ctx, sa, orm, sqlite_dialect, rng, eng, path, t, cls, perm, ps, k):
    model = Model()
    uniq = [0]

    def fresh():
        uniq[0] += 1
        return uniq[0]

    def fresh_row():
        u = fresh()
        return {"k": 1000 + u, "a": u % 3, "b": f"b{u}", "e": f"e{u}", "flag": rng.choice([1, 1, 0]),
                "s": f"S{u}x", "v": f"v{ctx.shard}.{k}.{u}", "n": rng.randint(0, 4), "x": f"xv{u}"}

    def bind_value(b):
        if b == "bp_n":
            return 500 + fresh()
        if b == "bp_wn":
            return rng.randint(0, 6)
        if b == "bp_ww":
            return rng.choice(["w0", "wx", "WL"])
        return f"B{fresh()}"

    def to_prop(r):
        """the row SQLite will see as ``excluded``: defaults applied, bound x value wrapped"""
        prop = dict(r, ou=None, id=None)
        prop.setdefault("w", "w0")
        prop.setdefault("n", 0)
        prop["x"] = f"x[{r['x']}]"
        return prop

    # ---- existing rows (plain inserts through the raw driver, outside the code under test)
    import sqlite3

    raw = sqlite3.connect(path, timeout=2.0)
    for _ in range(rng.randint(2, 5)):
        r = fresh_row()
        r.update(w="w0" if rng.random() < 0.6 else "wx", ou=None)
        r["id"] = model.next_id()
        model.rows[r["id"]] = r
        raw.execute(f"INSERT INTO {t.name} ({', '.join(COLS)}) VALUES ({', '.join('?' * len(COLS))})",
                    [r[c] for c in COLS])
    raw.commit()
    raw.close()

    nstmt = rng.randint(3, 7)
    prev_spec = None
    this_clauses = None
    for si in range(nstmt):
        # ---- statement family: with probability 1/2 the statement is a same-shaped sibling of the
        # previous one on this table/engine (same form, targets, actions) that differs in exactly
        # one literal or one expression of one DO UPDATE clause - the compiled cache is shared
        family = prev_spec is not None and rng.random() < 0.5 and any(c["action"] == "update" for c in prev_spec["clauses"])
        if family:
            form = prev_spec["form"]
            spec_clauses = [dict(c) for c in prev_spec["clauses"]]
            ix = rng.choice([i for i, c in enumerate(spec_clauses) if c["action"] == "update"])
            spec_clauses[ix] = vary_clause(rng, spec_clauses[ix])
            ctx.count("family_siblings")
        else:
            form = rng.choice(["single_params", "single_values", "many_plain", "many_ret", "many_ret", "many_ret_sorted",
                               "many_ret_sorted", "multivalues", "orm_bulk"])
            many = form in ("many_plain", "many_ret", "many_ret_sorted", "orm_bulk")
            nclauses = 1 if rng.random() < 0.7 else 2
            rules = rng.sample(RULES, nclauses)
            spec_clauses = []
            for ci, rule in enumerate(rules):
                last = ci == nclauses - 1
                eff_rule = None if (last and rng.random() < 0.15) else rule
                cl = {"rule": eff_rule, "action": "nothing" if rng.random() < 0.3 else "update",
                      "tk": target_for(sa, t, eff_rule, rng, many)}
                if cl["action"] == "update":
                    cl["set"] = set_spec(rng)
                    cl["where"] = where_spec(rng)
                spec_clauses.append(cl)
        many = form in ("many_plain", "many_ret", "many_ret_sorted", "orm_bulk")
        clauses = []
        cdesc = []
        all_binds = []
        where_binds = []
        appliers = []
        for cl in spec_clauses:
            tk = cl["tk"]
            if cl["action"] == "nothing":
                appliers.append(lambda st, tk=tk: st.on_conflict_do_nothing(**tk))
                clauses.append({"rule": cl["rule"], "action": "nothing"})
                cdesc.append({"rule": cl["rule"], "action": "nothing"})
                continue
            sspec, (wname, wK) = cl["set"], cl["where"]

            def sbuild(t_, ex, sspec=sspec):
                return {(t_.c[c] if sspec["by_column"] else c): SET_OPTIONS[c][nm][0](sa, t_, ex, L) for c, nm, L in sspec["cols"]}

            set_py = {c: (lambda e, p, c=c, nm=nm, L=L: SET_OPTIONS[c][nm][1](e, p, L)) for c, nm, L in sspec["cols"]}
            wmk, wfn, _ = WHERE_OPTIONS[wname]
            wbuild = (lambda t_, ex, wmk=wmk, wK=wK: wmk(sa, t_, ex, wK)) if wmk else None
            wpy = (lambda e, p, wfn=wfn, wK=wK: wfn(e, p, wK)) if wfn else None
            appliers.append(lambda st, tk=tk, sbuild=sbuild, wbuild=wbuild: st.on_conflict_do_update(
                set_=sbuild(t, st.excluded), where=wbuild(t, st.excluded) if wbuild else None, **tk))
            clauses.append({"rule": cl["rule"], "action": "update", "set_py": set_py, "where_py": wpy})
            cdesc.append({"rule": cl["rule"], "action": "update", "set": [list(c) for c in sspec["cols"]], "where": [wname, wK],
                          "varied": cl.get("varied"),
                          "target": "columns" if any(not isinstance(x, str) for x in tk.get("index_elements", [])) else "names"})
            all_binds += ["bp_" + c for c, nm, L in sspec["cols"] if nm == "bind"]
            where_binds += WHERE_BINDS.get(wname, [])
        where_binds = sorted(set(where_binds))
        all_binds = sorted(set(all_binds) | set(where_binds))
        if form == "orm_bulk" and all_binds:
            form = "many_ret"   # extra (non-attribute) keys cannot travel through an ORM bulk insert
        prev_clauses, this_clauses = (this_clauses if si else None), clauses
        prev_spec = {"form": form, "clauses": spec_clauses}

        def with_clauses(st):
            for ap in appliers:
                st = ap(st)
            return st

        stmt = with_clauses(sqlite_dialect.insert(t))
        covered = {c["rule"] for c in clauses}
        # ---- rows
        nrows = 1 if form.startswith("single") else rng.randint(2, 7)
        want_uncovered = None not in covered and rng.random() < 0.08
        include_w = rng.random() < 0.4
        include_n = rng.random() < 0.7
        props, patterns = [], []
        shadow = Model()
        shadow.rows = {i: dict(r) for i, r in model.rows.items()}
        for ri in range(nrows):
            r = fresh_row()
            if include_w:
                r["w"] = f"w{fresh()}"
            if not include_n:
                del r["n"]    # python-side scalar default 0 supplies the proposed value
            pattern = rng.choice(["fresh", "existing", "existing", "mutual"])
            cand_rules = [x for x in RULES if x in covered or None in covered]
            if want_uncovered and ri == nrows - 1:
                cand_rules = [x for x in RULES if x not in covered]
                pattern = "existing"
            if pattern != "fresh" and cand_rules and shadow.rows:
                rule = rng.choice(cand_rules)
                pool = list(shadow.rows.values())
                if pattern == "mutual":
                    newer = [x for x in pool if x["id"] not in model.rows]
                    pool = newer or pool
                    pattern = "mutual" if newer else "existing"
                target = rng.choice(pool)
                if rule == "k":
                    r["k"] = target["k"]
                elif rule == "ab":
                    r["a"], r["b"] = target["a"], target["b"]
                elif rule == "e":
                    if target["flag"] == 1:
                        r["e"], r["flag"] = target["e"], 1
                    else:
                        pattern = "fresh"
                elif rule == "ls":
                    r["s"] = target["s"].swapcase()
            else:
                pattern = "fresh"
            for b in all_binds:
                r[b] = bind_value(b)
            # evaluate on the shadow model so later rows can conflict with this one
            prop = to_prop(r)
            try:
                outcome, snap = shadow.upsert(prop, clauses)
            except AssertionError:
                # double conflict produced by accident (e.g. swapcase collision): regenerate as fresh
                r = fresh_row()
                if include_w:
                    r["w"] = f"w{fresh()}"
                if not include_n:
                    del r["n"]
                for b in all_binds:
                    r[b] = bind_value(b)
                prop = to_prop(r)
                outcome, snap = shadow.upsert(prop, clauses)
                pattern = "fresh"
            props.append(r)
            patterns.append((pattern, outcome))
            if outcome == "error":
                break
        expect_error = patterns[-1][1] == "error"
        page = rng.choice([1, 2, 3, 1000])
        sort = form in ("many_ret_sorted",) or (form == "orm_bulk" and rng.random() < 0.6)
        desc = {"clauses": cdesc, "form": form, "patterns": patterns, "page": page, "sort": sort, "ps": ps,
                "sentinel": "sent" in t.c, "include_w": include_w}

        # ---- replay on the real model (shadow was only for generation)
        outcomes = []
        trial = Model()
        trial.rows = {i: dict(r) for i, r in model.rows.items()}
        for r in props:
            outcomes.append(trial.upsert(to_prop(r), clauses))

        # ---- execute
        perm.reset_case()
        returned = None
        raised = None
        objs = None
        try:
            if form == "orm_bulk":
                with orm.Session(eng) as s:
                    ostmt = with_clauses(sqlite_dialect.insert(cls)).returning(cls, sort_by_parameter_order=sort)
                    res = s.scalars(ostmt, [dict(r) for r in props],
                                    execution_options={"populate_existing": True, "insertmanyvalues_page_size": page})
                    got = res.all()
                    objs = [{c: getattr(o, c) for c in COLS} for o in got]
                    s.commit()
            else:
                with eng.begin() as c:
                    opts = {"insertmanyvalues_page_size": page}
                    if form == "single_params":
                        res = c.execute(stmt.returning(t), props[0])
                        returned = [dict(r._mapping) for r in res.all()]
                    elif form == "single_values":
                        vals = {kk: vv for kk, vv in props[0].items() if not kk.startswith("bp_")}
                        bp = {kk: vv for kk, vv in props[0].items() if kk.startswith("bp_")}
                        res = c.execute(stmt.values(**vals).returning(t), bp)
                        returned = [dict(r._mapping) for r in res.all()]
                    elif form == "many_plain":
                        c.execute(stmt, props, execution_options=opts)
                    elif form in ("many_ret", "many_ret_sorted"):
                        res = c.execute(stmt.returning(t, sort_by_parameter_order=sort), props, execution_options=opts)
                        returned = [dict(r._mapping) for r in res.all()]
                    elif form == "multivalues":
                        if all_binds:
                            vals = [{kk: vv for kk, vv in r.items() if not kk.startswith("bp_")} for r in props]
                            # one statement, one SET clause: a bound SET value is shared by construction
                            bp = {b: props[0][b] for b in all_binds}
                            for r in props:
                                r.update(bp)
                            outcomes = []
                            trial = Model()
                            trial.rows = {i: dict(r) for i, r in model.rows.items()}
                            for r in props:
                                outcomes.append(trial.upsert(to_prop(r), clauses))
                            res = c.execute(stmt.values(vals).returning(t), bp)
                        else:
                            res = c.execute(stmt.values(props).returning(t))
                        returned = [dict(r._mapping) for r in res.all()]
        except sa.exc.IntegrityError as e:
            raised = e
        except Exception as e:
            mech = f"upsert-raised-{type(e).__name__}"
            msg = str(e)
            if isinstance(e, sa.exc.StatementError) and "'literal_execute' or 'expanding' parameters can't be" in msg:
                # a Python literal in index_where= is rendered as a literal_execute parameter, which
                # the execution context refuses for every executemany
                mech = "index-where-literal-execute-executemany-raises"
            elif isinstance(e, sa.exc.DBAPIError) and re.search(r"DO UPDATE SET [^\n]*\), \(", getattr(e, "statement", None) or msg):
                # the multi-row VALUES expansion was also applied to text inside the DO UPDATE clause
                mech = "insertmanyvalues-values-text-replaced-outside-values-clause"
            ctx.violation(mech, f"{desc} raised {e!r}"[:900], desc)
            ctx.case(desc, nontrivial=False)
            if mech.startswith("upsert-raised-"):
                return
            continue      # (statement-shape defects: the transaction was rolled back, table and model unchanged)

        expect_error = any(o == "error" for o, _ in outcomes)
        stored = read_table(path, t.name)
        if expect_error:
            if raised is None:
                ctx.violation("uncovered-conflict-did-not-raise", f"{desc}: a conflict on a rule no clause covers "
                              f"must raise IntegrityError", desc)
                return
            ctx.count("uncovered_conflicts_raised")
            if stored != {i: {c: r[c] for c in COLS} for i, r in model.rows.items()}:
                ctx.violation("failed-upsert-changed-table", f"{desc}: statement raised but the table changed", desc)
                return
            ctx.case(desc, nontrivial=True)
            continue
        if raised is not None:
            ctx.violation("upsert-raised-IntegrityError", f"{desc}: every conflict was covered by a clause but "
                          f"{raised!r}"[:700], desc)
            return

        # ---- table state == model state
        before = {i: dict(r) for i, r in model.rows.items()}
        model.rows = trial.rows
        want = {i: {c: r[c] for c in COLS} for i, r in model.rows.items()}
        if stored != want:
            diff = []
            for i in sorted(set(stored) | set(want)):
                if stored.get(i) != want.get(i):
                    diff.append({"id": i, "stored": stored.get(i), "model": want.get(i)})
            mech = classify(diff, props, [b for b in all_binds if b not in where_binds], outcomes)
            if where_binds and len(props) > 1:
                # does the table look as if every row of a batch had been judged with the WHERE
                # parameters of the batch's FIRST row?
                alt = Model()
                alt.rows = {i: dict(r) for i, r in before.items()}
                size = page if form in ("many_ret", "many_ret_sorted") else len(props)
                try:
                    for ix, r in enumerate(props):
                        head = props[ix - ix % size]
                        alt.upsert(to_prop(dict(r, **{b: head[b] for b in where_binds})), clauses)
                    if {i: {c: r[c] for c in COLS} for i, r in alt.rows.items()} == stored:
                        mech = "upsert-where-per-row-bind-batched-with-first-row"
                except (AssertionError, KeyError):
                    pass
            if family and prev_clauses is not None:
                # does the table look as if the *previous sibling's* clauses had been executed?
                alt = Model()
                alt.rows = {i: dict(r) for i, r in before.items()}
                try:
                    for r in props:
                        alt.upsert(to_prop(r), prev_clauses)
                    if {i: {c: r[c] for c in COLS} for i, r in alt.rows.items()} == stored:
                        mech = "sibling-statement-ran-with-previous-statements-clause"
                except (AssertionError, KeyError):
                    pass
            ctx.violation(mech, f"{desc}: table differs from the insert-or-update model: {diff[:3]}",
                          {"desc": desc, "diff": diff[:6], "rows": props[:8]})
            return
        for (o, _), (pat, _) in zip(outcomes, patterns):
            ctx.count({"ins": "rows_inserted", "upd": "rows_updated", "skip": "rows_skipped"}[o])
            if o != "ins":
                ctx.count("rows_conflicted")
            if pat == "mutual" and o != "ins":
                ctx.count("mutual_conflicts")
        if all_binds:
            ctx.count("bound_set_rows", sum(1 for o, _ in outcomes if o == "upd"))
        if where_binds and len(props) > 1:
            ctx.count("bound_where_rows", sum(1 for o, _ in outcomes if o != "ins"))

        # ---- RETURNING == affected rows
        affected = [{c: snap[c] for c in COLS} for o, snap in outcomes if o in ("ins", "upd")]
        got = returned if returned is not None else objs
        if got is not None:
            got = [{c: r[c] for c in COLS} for r in got]
            key = lambda r: tuple((c, repr(r[c])) for c in COLS)  # noqa: E731
            ctx.count("returning_rows_checked", len(got))
            if form == "orm_bulk":
                # populate_existing refreshes one identity per row: an object shows one of the
                # snapshots of its row (the last one processed); ids are judged as a sequence
                ctx.count("orm_objects_checked", len(got))
                snaps = {}
                for a_ in affected:
                    snaps.setdefault(a_["id"], set()).add(key(a_))
                if sorted(r["id"] for r in got) != sorted(a_["id"] for a_ in affected) or any(
                        key(r) not in snaps.get(r["id"], ()) for r in got):
                    ctx.violation("orm-upsert-objects-not-affected-rows", f"{desc}: objects {got[:4]} expected "
                                  f"{affected[:4]}", {"desc": desc, "got": got[:8], "want": affected[:8]})
                    return
                if sort and [r["id"] for r in got] != [a_["id"] for a_ in affected]:
                    ctx.violation("returning-rows-not-in-parameter-order", f"{desc}: object ids {[r['id'] for r in got]} "
                                  f"expected {[a_['id'] for a_ in affected]}", {"desc": desc})
                    return
            else:
                if sorted(map(key, got)) != sorted(map(key, affected)):
                    ctx.violation("returning-rows-not-affected-rows", f"{desc}: returned {got[:4]} expected {affected[:4]} "
                                  f"(outcomes {[o for o, _ in outcomes]})",
                                  {"desc": desc, "got": got[:8], "want": affected[:8]})
                    return
                if sort and got != affected:
                    ctx.violation("returning-rows-not-in-parameter-order", f"{desc}: returned ids "
                                  f"{[r['id'] for r in got]} expected {[r['id'] for r in affected]}", {"desc": desc})
                    return
        ctx.seen("form", form)
        ctx.seen("clause_shape", repr([(c["rule"], c["action"]) for c in cdesc]))
        ctx.case(desc, nontrivial=any(o != "ins" for o, _ in outcomes))
        if k % 25 == 7 and si == 0:
            ctx.sample({"desc": desc, "rows": props[:3], "outcomes": [o for o, _ in outcomes]})


def classify(diff, props, binds, outcomes):
    """mechanism from the shape of the disagreement (one defect -> one mechanism)"""
    d = diff[0]
    if d["stored"] is None:
        return "row-missing"
    if d["model"] is None:
        return "unexpected-row-inserted"
    touched = {snap["id"] for o, snap in outcomes if o in ("ins", "upd")}
    cols = sorted(c for c in COLS if d["stored"][c] != d["model"][c])
    if d["id"] not in touched:
        return "row-changed-although-clause-says-skip"
    bound_values = {r[b] for r in props for b in binds if b in r}
    bound_values |= {f"x[{v}]" for v in list(bound_values)}
    if any(d["stored"][c] in bound_values for c in cols if c in ("v", "n")):
        return "bound-set-value-from-wrong-row"
    if "x" in cols and d["stored"]["x"] in bound_values:
        return "bound-set-value-from-wrong-row-through-bind-expression-type"
    if cols == ["ou"]:
        return "onupdate-ran-for-on-conflict"
    return "updated-row-differs-from-model"


# --------------------------------------------------------------------------------------
# Part B: PG / MySQL / MariaDB at the recording fake DBAPI, statement text + parameters
# --------------------------------------------------------------------------------------
FAKE = (
    ("postgresql+psycopg2://u:p@h/db", "pg"),
    ("postgresql+pg8000://u:p@h/db", "pg"),
    ("mysql+pymysql://u:p@h/db", "my"),
    ("mariadb+mariadbconnector://u:p@h/db", "my"),
    ("mysql+mysqldb://u:p@h/db", "my"),
)
_PH = re.compile(r"%\((\w+)\)s|%s|\?")


def placeholders(sql):
    """[(position in text, name or None)] skipping nothing: the generated SQL has no string literals"""
    return [(m.start(), m.group(1)) for m in _PH.finditer(sql)]


def fake_part(ctx, sa, first):
    from sqlalchemy.dialects import mysql as my
    from sqlalchemy.dialects import postgresql as pg

    from vf.mon.fake_dbapi import recording_engine

    rng = ctx.rng
    n = ctx.pick({"quick": 40, "thorough": 600})
    head = 10
    for k in (range(head) if first else range(head, n)):
        if not first and not ctx.budget_ok():
            break
        url, fam = FAKE[(k + ctx.shard) % len(FAKE)]
        md = sa.MetaData()
        t = sa.Table("u", md, sa.Column("id", sa.Integer, primary_key=True), sa.Column("k", sa.Integer, unique=True),
                     sa.Column("v", sa.String(50)), sa.Column("n", sa.Integer), sa.Column("w", sa.String(50)))
        vals = {"id": 6000 + k, "k": 7000 + k, "v": f"ins-v-{k}", "n": 8000 + k, "w": f"ins-w-{k}"}
        setcols = rng.sample(["v", "n", "w"], rng.randint(1, 3))
        lits = {}
        desc = {"fake": url.split(":")[0], "set": {}}
        if fam == "pg":
            stmt = pg.insert(t).values(**vals)
            set_ = {}
            for c in setcols:
                kind = rng.choice(["lit", "exc"])
                desc["set"][c] = kind
                if kind == "lit":
                    lits[c] = f"set-{c}-{k}" if c != "n" else 9000 + k
                    set_[c] = lits[c]
                else:
                    set_[c] = stmt.excluded[c]
            where = rng.choice([None, t.c.n < 123456])
            stmt = stmt.on_conflict_do_update(index_elements=[t.c.k], set_=set_, where=where)
            marker = "DO UPDATE SET"
        else:
            stmt = my.insert(t).values(**vals)
            set_ = {}
            for c in setcols:
                kind = rng.choice(["lit", "exc"])
                desc["set"][c] = kind
                if kind == "lit":
                    lits[c] = f"set-{c}-{k}" if c != "n" else 9000 + k
                    set_[c] = lits[c]
                else:
                    set_[c] = stmt.inserted[c]
            stmt = stmt.on_duplicate_key_update(**set_)
            marker = "ON DUPLICATE KEY UPDATE"
        eng, fake = recording_engine(url)
        try:
            with eng.connect() as c:
                c.execute(stmt)
        except Exception as e:
            ctx.violation(f"fake-upsert-raised-{type(e).__name__}", f"{desc}: {e!r}"[:400], desc)
            eng.dispose()
            continue
        eng.dispose()
        sts = [(sql, p) for sql, p in fake.statements() if sql.lstrip().startswith("INSERT")]
        if len(sts) != 1 or marker not in sts[0][0]:
            ctx.violation("fake-upsert-clause-missing", f"{desc}: {sts}"[:400], desc)
            continue
        sql, params = sts[0]
        head, tail = sql.split(marker, 1)
        phs = placeholders(sql)

        def value_of(idx):
            pos, name = phs[idx]
            return params[name] if name is not None else params[idx]

        # VALUES part: inserted columns in order carry their own values
        m = re.search(r"INSERT INTO u \(([^)]*)\) VALUES \(([^)]*)\)", head)
        inscols = [c.strip().strip('`"') for c in m.group(1).split(",")]
        head_ph = [i for i, (pos, _) in enumerate(phs) if pos < len(head)]
        if [value_of(i) for i in head_ph] != [vals[c] for c in inscols]:
            ctx.violation("fake-upsert-values-misbound", f"{desc}: {sql} {params}"[:500], desc)
        # SET part: "col = <placeholder>" or "col = excluded.col" / VALUES(col) / new.col
        for c in setcols:
            mm = re.search(rf"(?<![\w.]){c}\"?`?\s*=\s*([^,]+?)(?:,|\s+WHERE\s|$)", tail)
            if not mm:
                ctx.violation("fake-upsert-set-column-missing", f"{desc}: no assignment to {c} in {tail!r}", desc)
                continue
            rhs = mm.group(1).strip()
            ctx.count("fake_set_values_checked")
            if c in lits:
                pm = _PH.search(rhs)
                if not pm:
                    ctx.violation("fake-upsert-set-literal-not-bound", f"{desc}: {c} = {rhs!r}", desc)
                    continue
                abs_pos = len(head) + len(marker) + mm.start(1) + (len(mm.group(1)) - len(mm.group(1).lstrip())) + pm.start()
                idx = next((i for i, (pos, _) in enumerate(phs) if pos == abs_pos), None)
                if idx is None or value_of(idx) != lits[c]:
                    ctx.violation("fake-upsert-set-value-misbound", f"{desc}: {c} = {rhs!r} bound to "
                                  f"{None if idx is None else value_of(idx)!r} expected {lits[c]!r} :: {sql} {params}"[:600], desc)
            else:
                ok = re.fullmatch(rf"excluded\.\"?{c}\"?|VALUES\(`?{c}`?\)|new\.`?{c}`?", rhs)
                if not ok:
                    ctx.violation("fake-upsert-excluded-reference", f"{desc}: {c} = {rhs!r}", desc)
        ctx.seen("fake_dialect", desc["fake"])
        ctx.case(desc, nontrivial=True)


# --------------------------------------------------------------------------------------
# Part C: MySQL / MariaDB ON DUPLICATE KEY UPDATE - argument forms x requested orders x
# self-referencing assignments, judged on the statement the (fake) driver receives
# --------------------------------------------------------------------------------------
MY_URLS = ("mysql+pymysql://u:p@h/db", "mysql+mysqldb://u:p@h/db", "mariadb+mariadbconnector://u:p@h/db",
           "mariadb+pymysql://u:p@h/db")


def _eval_rendered(expr, row, inserted, tname, alias_name):
    """value of a rendered assignment expression: sums of ``VALUES(x)`` / ``new.x`` (the proposed
    row), ``t.x`` / ``x`` (the existing row *as left by the assignments to its left*) and ints"""
    total = 0
    e = expr.strip()
    while e.startswith("(") and e.endswith(")"):
        e = e[1:-1].strip()
    for term in e.split(" + "):
        term = term.strip().replace("`", "")
        while term.startswith("("):
            term = term[1:]
        while term.count(")") > term.count("("):
            term = term[:-1]
        m = re.fullmatch(r"VALUES\((\w+)\)", term)
        if m is None and alias_name:
            m = re.fullmatch(rf"{alias_name}\.(\w+)", term)
        if m:
            total += inserted[m.group(1)]
        elif re.fullmatch(r"-?\d+", term):
            total += int(term)
        else:
            m = re.fullmatch(rf"(?:{tname}\.)?(\w+)", term)
            if not m:
                raise AssertionError(f"cannot evaluate rendered term {term!r} of {expr!r}")
            total += row[m.group(1)]
    return total


def mysql_ondup_part(ctx, sa, first):
    """MySQL evaluates ON DUPLICATE KEY UPDATE assignments left to right; a later assignment sees
    what an earlier one wrote.  ``on_duplicate_key_update()`` takes a dict, keyword arguments or an
    ORDERED list of 2-tuples ("ordered as sent").  The statement handed to the driver is parsed
    back: every requested target is assigned exactly once with the requested expression; for the
    list form the assignments appear in the requested order; the conflicting row, computed by
    MySQL's left-to-right rule from the rendered assignments, equals the model computed from the
    requested assignments (dict / kwargs: only when no assignment reads a column another one
    writes - their order is not specified)."""
    from sqlalchemy.dialects import mysql

    from vf.mon.fake_dbapi import recording_engine

    rng = ctx.rng
    ncases = ctx.pick({"quick": 60, "thorough": 2500})
    head = 12
    names = ["a", "b", "c", "d"]
    for k in (range(head) if first else range(head, ncases)):
        if not first and not ctx.budget_ok():
            break
        url = MY_URLS[(k + ctx.shard) % len(MY_URLS)]
        alias = url.startswith("mysql") and rng.random() < 0.5
        table_order = rng.sample(names, len(names))
        md = sa.MetaData()
        tname = rng.choice(["readings", "new"])       # (a table called "new" forces the alias name new_1)
        t = sa.Table(tname, md, sa.Column("id", sa.Integer, primary_key=True, autoincrement=False),
                     *[sa.Column(c, sa.Integer) for c in table_order])
        existing = {"id": 1, **{c: rng.randint(1, 99) for c in names}}
        inserted = {"id": 1, **{c: rng.randint(100, 999) for c in names}}
        stmt = mysql.insert(t).values(**inserted)
        targets = rng.sample(names, rng.randint(1, 4))        # the requested order
        spec, built, twins = [], [], {}
        for tg in targets:
            kind = rng.choice(["lit", "ins", "tbl", "tbl", "tbl_plus_ins", "tbl_plus_lit"])
            y, z, L = rng.choice(names), rng.choice(names), rng.randint(1000, 9999)
            if kind == "lit":
                ex, fn, reads = L, (lambda row, L=L: L), []
            elif kind == "ins":
                ex, fn, reads = stmt.inserted[y], (lambda row, y=y: inserted[y]), []
            elif kind == "tbl":
                ex, fn, reads = t.c[y], (lambda row, y=y: row[y]), [y]
            elif kind == "tbl_plus_ins":
                ex, fn, reads = t.c[y] + stmt.inserted[z], (lambda row, y=y, z=z: row[y] + inserted[z]), [y]
            else:
                ex, fn, reads = t.c[y] + L, (lambda row, y=y, L=L: row[y] + L), [y]
            spec.append([tg, kind, y, z, L])
            built.append((tg, ex))
            twins[tg] = (fn, reads)
        # (keys are column key strings, as documented; Column objects as keys of the ordered form
        # raise ArgumentError on the unchanged tree and are not generated)
        form = rng.choice(["list", "list", "dict", "kwargs"])
        alias_name = ("new_1" if tname == "new" else "new") if alias else None
        if form == "list":
            stmt = stmt.on_duplicate_key_update(built)
        elif form == "dict":
            stmt = stmt.on_duplicate_key_update(dict(built))
        else:
            stmt = stmt.on_duplicate_key_update(**dict(built))
        ordered = form.startswith("list")
        # order matters when an assignment reads a column that ANOTHER assignment writes
        self_ref = any(r in targets and r != tg for tg in targets for r in twins[tg][1])
        desc = {"fake": url.split(":")[0], "alias_form": alias, "table_order": table_order, "form": form,
                "assignments": spec, "table": tname}
        eng, fake = recording_engine(url)
        if alias:
            eng.dialect._requires_alias_for_on_duplicate_key = True
        try:
            with eng.connect() as c:
                c.execute(stmt)
        except Exception as e:
            ctx.violation(f"mysql-ondup-raised-{type(e).__name__}", f"{desc}: {e!r}"[:500], desc)
            eng.dispose()
            continue
        eng.dispose()
        sts = [(q_, p_) for q_, p_ in fake.statements() if (q_ or "").lstrip().startswith("INSERT")]
        if len(sts) != 1 or "ON DUPLICATE KEY UPDATE" not in sts[0][0]:
            ctx.violation("mysql-ondup-clause-missing", f"{desc}: {sts}"[:400], desc)
            continue
        sql, params = sts[0]
        it = iter(params) if not isinstance(params, dict) else None
        flat = _PH.sub(lambda m: str(params[m.group(1)] if m.group(1) else next(it)), " ".join(sql.split()))
        tail = flat.split("ON DUPLICATE KEY UPDATE", 1)[1].strip()
        assigns = [tuple(x.strip() for x in part.split(" = ", 1)) for part in tail.split(", ")]
        got_targets = [a[0].replace("`", "") for a in assigns]
        ctx.count("mysql_ondup_statements")
        if sorted(got_targets) != sorted(targets):
            ctx.violation("mysql-ondup-assignment-set", f"{desc}: assigned {got_targets} requested {targets}: {tail}", desc)
            continue
        if ordered and got_targets != targets:
            ctx.violation("mysql-ondup-assignment-order-not-as-requested",
                          f"{desc}: ordered form rendered {got_targets}, requested {targets}: {tail}", desc)
        # model: requested assignments, left to right on the existing row
        want = dict(existing)
        for tg in targets:
            want[tg] = twins[tg][0](want)
        got = dict(existing)
        for (tg_r, ex_r) in assigns:
            got[tg_r.replace("`", "")] = _eval_rendered(ex_r, got, inserted, tname, alias_name)
        if ordered or not self_ref:
            ctx.count("mysql_ondup_rows_modelled")
            if self_ref:
                ctx.count("mysql_ondup_self_referencing_ordered")
            if got != want:
                ctx.violation("mysql-ondup-row-state-differs-from-model",
                              f"{desc}: MySQL's left-to-right evaluation of {tail!r} on {existing} gives {got}, the "
                              f"requested assignments give {want}", desc)
        else:
            # unordered forms: each expression, evaluated on the ORIGINAL row, must be the requested one
            for (tg_r, ex_r) in assigns:
                tg_r = tg_r.replace("`", "")
                if _eval_rendered(ex_r, existing, inserted, tname, alias_name) != twins[tg_r][0](existing):
                    ctx.violation("mysql-ondup-assignment-expression", f"{desc}: {tg_r} = {ex_r}", desc)
                    break
        ctx.seen("mysql_ondup_form", f"{form}/{'alias' if alias else 'values'}/{desc['fake']}")
        ctx.case(desc, nontrivial=len(targets) >= 2)
