import sys
from .core import shard_main

if __name__ == "__main__":
    sys.exit(shard_main(sys.argv[1:]))
